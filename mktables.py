#!/usr/bin/env python3
"""Regenerates the tables of DESIGN.md section 7.6 from mutants/RESULTS.json and seeded/*/meta.json."""
import json, os, re
ROOT = os.path.dirname(os.path.abspath(__file__))
out = []
rp = os.path.join(ROOT, "mutants", "RESULTS.json")
if os.path.exists(rp):
    rows = json.load(open(rp))
    caught = sum(1 for r in rows for p, c in r["checks"].items() if r["expect"] == "fail" and c["caught"])
    aimed = sum(1 for r in rows for p in r["checks"] if r["expect"] == "fail")
    eq = [r for r in rows if r["expect"] == "pass"]
    invisible = sum(1 for r in rows if r["expect"] == "fail" and r["baseline_tests_pass"])
    out.append("**Mutants** (%d entries; %d (mutant, property) pairs expected to fail, %d caught by the quick check; "
               "%d equivalent mutants expected to stay green, %d did; %d of the non-equivalent mutants pass the "
               "repository's own 33 tests, i.e. are invisible to the existing suite).\n" %
               (len(rows), aimed, caught, len(eq), sum(1 for r in eq if all(not c["caught"] and c["exit"] == 0 for c in r["checks"].values())), invisible))
    out.append("| mutant | aimed at | existing suite | quick check |")
    out.append("|---|---|---|---|")
    for r in rows:
        res = "; ".join("%s %s (%ss)" % (p, "caught" if c["caught"] else ("green" if c["exit"] == 0 else "exit %d" % c["exit"]), c["seconds"])
                        for p, c in r["checks"].items())
        out.append("| %s%s | %s | %s | %s |" % (r["name"], " (equivalent)" if r["expect"] == "pass" else "", ",".join(r["props"]),
                                               "passes" if r["baseline_tests_pass"] else "fails", res))
    out.append("")
sd = os.path.join(ROOT, "seeded")
metas = []
for n in sorted(os.listdir(sd)):
    mp = os.path.join(sd, n, "meta.json")
    if os.path.exists(mp):
        metas.append(json.load(open(mp)))
if metas:
    ok = [m for m in metas if m.get("confirmed")]
    out.append("**Seeded changes** (%d confirmed; %d caught by at least one check).\n" % (len(ok), sum(1 for m in ok if m.get("caught_by"))))
    out.append("| seeded change | files | aimed at | caught by (tier, seconds) | note |")
    out.append("|---|---|---|---|---|")
    for m in metas:
        if not m.get("confirmed"):
            out.append("| %s | %s | %s | not confirmed | %s |" % (m["name"], ",".join(m.get("patch_files", [])), ",".join(m["properties"]), m.get("note", "")))
            continue
        cb = []
        for p, r in (m.get("checks") or {}).items():
            if not isinstance(r, dict):
                continue
            hit = [(t, v) for t, v in r.items() if v.get("caught")]
            if hit:
                cb.append("%s (%s, %ss)" % (p, hit[0][0], hit[0][1]["seconds"]))
            else:
                cb.append("%s missed" % p)
        out.append("| %s | %s | %s | %s | %s |" % (m["name"], ",".join(m.get("patch_files", [])), ",".join(m["properties"]), "; ".join(cb), m.get("note", "").replace("|", "/")))
    out.append("")
bd = os.path.join(ROOT, "benign")
bm = []
if os.path.isdir(bd):
    for n in sorted(os.listdir(bd)):
        mp = os.path.join(bd, n, "meta.json")
        if os.path.exists(mp):
            bm.append(json.load(open(mp)))
if bm:
    out.append("**Benign (property-preserving) changes** (%d stored; the checks must stay green on every one).\n" % len(bm))
    out.append("| benign change | files | checks run | result | note |")
    out.append("|---|---|---|---|---|")
    for m in bm:
        res = []
        for pid, r in (m.get("checks") or {}).items():
            if isinstance(r, dict):
                res.append("%s %s" % (pid, "/".join("%s exit %s (%ss)" % (t, v.get("exit"), v.get("seconds")) for t, v in r.items())))
        out.append("| %s | %s | %s | %s | %s |" % (m["name"], ",".join(m.get("patch_files", [])), ",".join(m["properties"]), "; ".join(res), m.get("note", "").replace("|", "/")))
    out.append("")
p = os.path.join(ROOT, "DESIGN.md")
s = open(p).read()
s = re.sub(r"<!-- TABLES-BEGIN -->.*<!-- TABLES-END -->", "<!-- TABLES-BEGIN -->\n" + "\n".join(out) + "\n<!-- TABLES-END -->", s, flags=re.S)
open(p, "w").write(s)
print("tables written:", len(out), "lines")
