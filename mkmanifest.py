#!/usr/bin/env python3
"""Regenerates MANIFEST.json from the table below (kept in one place so that the manifest is always valid)."""
import json, os
ROOT = os.path.dirname(os.path.abspath(__file__))

BASELINE_OFF = ("cd /repo && GOFLAGS=-mod=mod GOPROXY=off GOSUMDB=off GOTOOLCHAIN=local "
                "go test -vet=off -count=1 -timeout 25m ./...")

LEVEL_NOTE = ("Trusted: the Go toolchain and standard library (math/big, math.Erfc, math.Lgamma), pgregory.net/rapid, "
              "and the harness' own reference models (each anchored by its own unit tests to a literal definition). "
              "Generated-input search shows the property on the cases explored; it does not prove absence.")

# id -> (technique, level text, design ref)
CHECKS = {
 "C01": ("exhaustive small-scope enumeration + rapid PBT + native fuzzing vs exact integer reference distribution",
         "Every tie vector and every split with n1+n2<=9 (thorough 12) is enumerated completely and random cases up to the "
         "limits (50+50 untied, 25+25 tied) are generated; U is compared with the pair count and P with the exact permutation "
         "tail computed by an independent 128-bit-integer DP. Exploration is the right level: the input space is infinite but "
         "the defect classes (two-valued data, mass at U-0.5, asymmetric tie patterns) are all present in the small scope.",
         "DESIGN.md §4 C01"),
 "C02": ("exhaustive small-scope enumeration + rapid PBT vs exact integer reference distribution",
         "Every (N1,N2,T) with N1+N2<=9 (thorough 12) on the whole half-integer grid, plus random distributions up to 50+50 / "
         "25+25 at grid, off-grid and out-of-range points: PMF, CDF, monotonicity, normalisation and the mirror law against an "
         "exact count that is itself anchored to literal subset enumeration.", "DESIGN.md §4 C02"),
 "C03": ("rapid PBT: metamorphic relations (permute, monotone map, swap) + differential vs stated formula and exact reference, over configurations of the two limits",
         "Generated sample pairs of 0..400 values under generated settings of the two public limits; every law in the statement "
         "is an executable relation and P is compared with the method the statement prescribes on either side of the switch-over.",
         "DESIGN.md §4 C03"),
 "C04": ("rapid PBT: differential vs 400-bit recomputation and an independent Student-t CDF, plus swap / shift / scale metamorphic relations",
         "Generated samples in the stated domain for the four tests and MeanCI; T and DoF against high-precision recomputation "
         "with a forward error bound, P against gonum's incomplete beta, error returns, swap and invariance laws, probability "
         "content of the confidence interval.", "DESIGN.md §4 C04"),
 "C05": ("rapid PBT: differential vs independent special functions, quadrature of the density, inverse round trip, seeded-sampler KS test",
         "Generated parameters and probe points over the stated ranges including tails and switch points; accuracy against "
         "references that share no code with the library, the coherence laws, and the sampler's determinism and distribution.",
         "DESIGN.md §4 C05"),
 "C06": ("exhaustive small-scope enumeration + rapid PBT vs exact big-integer / 400-bit probabilities",
         "All hypergeometric parameter triples up to N=40 (thorough 80) and all binomial N<=60 (thorough 120) on a grid of P, on "
         "the full k grid, plus random N up to 1000; PMF/CDF/Bounds/moments against exact rational arithmetic.", "DESIGN.md §4 C06"),
 "C07": ("rapid PBT over generated programs (user-defined piecewise CDFs) with the definition of the generalized inverse as oracle; scripted random source; KS test",
         "The quantile of generated mixed distributions and of wrapped built-ins is checked against the definition 'smallest x "
         "with CDF(x)>=y' using the distribution's own CDF, with a call budget for termination; dispatch and the sampler are "
         "checked bit-for-bit on scripted sources.", "DESIGN.md §4 C07"),
 "C08": ("rapid PBT differential vs gonum mathext and closed forms in 400-bit arithmetic + exhaustive enumeration of Choose/Lchoose for n<=1000",
         "Accuracy and identities of BetaInc, GammaInc, GammaIncComp, Beta on generated arguments concentrated at the hard spots; "
         "all 503505 (n,k) pairs of Choose/Lchoose against exact big integers.", "DESIGN.md §4 C08"),
 "C09": ("rapid PBT vs 400-bit reference; generated operation histories on a Sample against a multiset model; algebraic identities for vec",
         "Generated data with offsets up to 1e9 spreads, integer weights with zeros, permutations and Sort/Copy/permute/query "
         "histories; every statistic against exact arithmetic with condition-number-scaled tolerances.", "DESIGN.md §4 C09"),
 "C10": ("rapid PBT vs exact R8 quantile in 400-bit arithmetic; monotonicity / bounds / order-independence laws; weighted cumulative-weight oracle",
         "Generated samples with repeats and q including the exact break points; the value (continuous in q) is compared, with a "
         "tolerance that includes both neighbouring gaps at a break point.", "DESIGN.md §4 C10"),
 "C11": ("exhaustive grid enumeration + rapid PBT with validity predicates from exact binomial masses; independent normal-approximation oracle for n>30",
         "All n<=30 on a grid of q and 200+ confidence levels including every cumulative mass of the greedy accumulation and its "
         "ulp neighbours; the interval is judged by the predicates of the statement, not by one expected answer.", "DESIGN.md §4 C11"),
 "C12": ("rapid PBT over KDE configurations: differential vs independently summed (folded) kernel formula, quadrature of the density vs CDF, bounds and bandwidth rules",
         "Generated samples, weights, three kernels, bandwidths and the four boundary configurations; density and CDF against a "
         "directly summed image series, integral consistency, mass 1, Bounds and bandwidth formulas.", "DESIGN.md §4 C12"),
 "C13": ("rapid model-based testing of Add/Combine histories over several accumulators vs 400-bit batch statistics; every-split law",
         "Generated histories of Add and Combine on up to 6 accumulators (empty sides, nested merges) with a multiset model, "
         "checked after every step; plus every split point of generated streams.", "DESIGN.md §4 C13"),
 "C14": ("rapid model-based testing of Add sequences vs the histogram's own reported edges; rank oracle for HistogramQuantile; native fuzzing",
         "Generated histogram shapes and value sequences concentrated on edges and just below the first edge; conservation, bin "
         "placement by the reported edges, BinToValue interpolation and the quantile rank walk.", "DESIGN.md §4 C14"),
 "C15": ("rapid PBT: normal-equation residual and perturbation optimality, polynomial reproduction, LOESS locality metamorphic relation and independent QR fit",
         "Generated well-conditioned designs (condition number measured per case); the fit is judged by the defining optimality "
         "conditions and LOESS by locality, reproduction and an independent weighted fit.", "DESIGN.md §4 C15"),
 "C16": ("rapid PBT: differential vs affine / log-affine map in 400-bit arithmetic, round trips, monotonicity, clamp and QQ composition laws over configurations",
         "Generated domains over 24 orders of magnitude in both orders and signs, points inside and far outside, Clamp on/off, all "
         "four QQ pairings.", "DESIGN.md §4 C16"),
 "C17": ("rapid PBT with definitional tick oracle + exhaustive enumeration of FindLevel over all monotone count functions, limits and guesses",
         "Generated Linear and Log scales and TickOptions; ticks against integer multiples of the documented spacing, minimal level "
         "by linear scan, Nice laws; FindLevel against brute force on the complete small space.", "DESIGN.md §4 C17"),
 "C18": ("exhaustive enumeration of all digraphs on <=4 nodes (thorough 5) + rapid PBT on multigraphs and large structured graphs + model-based NodeMarks histories + native fuzzing",
         "Traversals, Euler tour, SCC, SimplifyMulti, subgraphs, MakeBiGraph, Equal and Dot output against definitional "
         "recomputation (explicit-stack DFS, BFS reachability, multiset comparison, a quote-aware Dot parser).", "DESIGN.md §4 C18"),
 "C19": ("exhaustive enumeration of all digraphs on <=4 nodes (thorough 5) x every root + rapid PBT on reducible/irreducible graphs with unreachable parts; step budget for termination; native fuzzing",
         "IDom, Dom and DomFrontier against dominance decided by deleting each node and re-running reachability; panics and a "
         "call-count budget on an instrumented graph decide 'never panics / terminates'.", "DESIGN.md §4 C19"),
 "C20": ("rapid PBT over a registry of the exported API: argument snapshots, repeat-after-unrelated-calls determinism, and 16 goroutines on shared inputs under the race detector",
         "Every registered call is checked for untouched arguments and bit-identical repeated results; the binary is built with "
         "-race and the registry is run concurrently on shared read-only inputs. Schedules are sampled, not enumerated.",
         "DESIGN.md §4 C20"),
}

def main():
    props = [json.loads(l) for l in open(os.path.join(ROOT, "properties.jsonl"))]
    checks, na = [], []
    for p in props:
        pid = p["id"]
        if pid in CHECKS and os.path.isdir(os.path.join(ROOT, "harness", pid.lower())):
            tech, text, ref = CHECKS[pid]
            checks.append({
                "property_id": pid,
                "quick_cmd": "./vcheck %s quick" % pid,
                "thorough_cmd": "./vcheck %s thorough" % pid,
                "evidence_file": "/verif/evidence/%s.json" % pid,
                "replay_cmd_template": "./vcheck %s replay {path}" % pid,
                "engine": "vcheck",
                "level_claimed": {"category": "exploration", "text": text, "design_ref": ref},
                "level_note": LEVEL_NOTE,
                "technique": tech,
            })
        else:
            na.append({"property_id": pid, "reason": "check not built yet (work in progress; property-based testing applies and a check is planned, see DESIGN.md §4)"})
    m = {
        "version": 1,
        "setup_cmd": "./vcheck build",
        "hooks": {
            "guard": "verif",
            "enable": "no hooks are needed: every property is observable through the exported API, so checks build /repo as is (go test -c in /verif/harness with replace => /repo)",
            "baseline_off_cmd": BASELINE_OFF,
            "source_commits": [],
            "add_only": True,
        },
        "engines": [{
            "name": "vcheck",
            "path": "/verif/vcheck",
            "serves_properties": [c["property_id"] for c in checks],
            "kind_free_text": "python driver that rebuilds one Go test binary per property from /repo's working tree "
                              "(harness module /verif/harness: rapid property tests, exhaustive small-scope enumerators, "
                              "native go fuzz targets, replay front end) and merges the evidence fragments",
        }],
        "checks": checks,
        "not_applicable": na,
        "notes": "Known findings and fixed defects: /verif/KNOWN_FINDINGS.txt. Sensitivity mutants: /verif/mutants. "
                 "Seeded changes from independent sub-agents: /verif/seeded.",
    }
    with open(os.path.join(ROOT, "MANIFEST.json"), "w") as f:
        json.dump(m, f, indent=1)
        f.write("\n")

if __name__ == "__main__":
    main()
