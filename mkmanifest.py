#!/usr/bin/env python3
"""Regenerates MANIFEST.json from the table below (kept in one place so that the manifest is always valid)."""
import json, os
ROOT = os.path.dirname(os.path.abspath(__file__))

BASELINE_OFF = ("cd /repo && GOFLAGS=-mod=mod GOPROXY=off GOSUMDB=off GOTOOLCHAIN=local "
                "go test -vet=off -count=1 -timeout 25m ./...")

LEVEL_NOTE = ("Trusted: the Go toolchain and standard library (math/big, math.Erfc, math.Lgamma), pgregory.net/rapid, "
              "and the harness' own reference models (each anchored by its own unit tests to a literal definition). "
              "Generated-input search shows the property on the cases explored; it does not prove absence.")

# id -> (technique, level text, design ref)
CHECKS = {
 "C01": ("exhaustive small-scope enumeration + rapid PBT + native fuzzing vs exact integer reference distribution",
         "Every tie vector and every split with n1+n2<=9 (thorough 12) is enumerated completely and random cases up to the "
         "limits (50+50 untied, 25+25 tied) are generated; U is compared with the pair count and P with the exact permutation "
         "tail computed by an independent 128-bit-integer DP. Exploration is the right level: the input space is infinite but "
         "the defect classes (two-valued data, mass at U-0.5, asymmetric tie patterns) are all present in the small scope.",
         "DESIGN.md §4 C01"),
}

def main():
    props = [json.loads(l) for l in open(os.path.join(ROOT, "properties.jsonl"))]
    checks, na = [], []
    for p in props:
        pid = p["id"]
        if pid in CHECKS and os.path.isdir(os.path.join(ROOT, "harness", pid.lower())):
            tech, text, ref = CHECKS[pid]
            checks.append({
                "property_id": pid,
                "quick_cmd": "./vcheck %s quick" % pid,
                "thorough_cmd": "./vcheck %s thorough" % pid,
                "evidence_file": "/verif/evidence/%s.json" % pid,
                "replay_cmd_template": "./vcheck %s replay {path}" % pid,
                "engine": "vcheck",
                "level_claimed": {"category": "exploration", "text": text, "design_ref": ref},
                "level_note": LEVEL_NOTE,
                "technique": tech,
            })
        else:
            na.append({"property_id": pid, "reason": "check not built yet (work in progress; property-based testing applies and a check is planned, see DESIGN.md §4)"})
    m = {
        "version": 1,
        "setup_cmd": "./vcheck build",
        "hooks": {
            "guard": "verif",
            "enable": "no hooks are needed: every property is observable through the exported API, so checks build /repo as is (go test -c in /verif/harness with replace => /repo)",
            "baseline_off_cmd": BASELINE_OFF,
            "source_commits": [],
            "add_only": True,
        },
        "engines": [{
            "name": "vcheck",
            "path": "/verif/vcheck",
            "serves_properties": [c["property_id"] for c in checks],
            "kind_free_text": "python driver that rebuilds one Go test binary per property from /repo's working tree "
                              "(harness module /verif/harness: rapid property tests, exhaustive small-scope enumerators, "
                              "native go fuzz targets, replay front end) and merges the evidence fragments",
        }],
        "checks": checks,
        "not_applicable": na,
        "notes": "Known findings and fixed defects: /verif/KNOWN_FINDINGS.txt. Sensitivity mutants: /verif/mutants. "
                 "Seeded changes from independent sub-agents: /verif/seeded.",
    }
    with open(os.path.join(ROOT, "MANIFEST.json"), "w") as f:
        json.dump(m, f, indent=1)
        f.write("\n")

if __name__ == "__main__":
    main()
