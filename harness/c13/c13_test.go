// Package c13 decides property C13: StreamStats equals batch statistics for
// every stream and every split.
package c13

import (
	"fmt"
	"math"
	"testing"

	"github.com/aclements/go-moremath/stats"
	"pgregory.net/rapid"

	"verifharness/internal/ev"
	"verifharness/internal/gen"
	"verifharness/internal/ref"
)

func TestMain(m *testing.M) { ev.Main(m, "C13") }

func TestReplay(t *testing.T) { ev.Replay(t) }

type Op struct {
	Kind string  `json:"kind"` // add, combine
	I    int     `json:"i"`    // add: accumulator; combine: destination
	J    int     `json:"j"`    // combine: source
	X    float64 `json:"x,omitempty"`
}

type Case struct {
	Acc int  `json:"acc"`
	Ops []Op `json:"ops"`
}

const cF = 16.0

// compare checks one accumulator against the multiset it must represent.
func compare(s *stats.StreamStats, xs []float64, label string) error {
	n := len(xs)
	if s.Count != uint(n) || s.Weight() != float64(n) {
		return fmt.Errorf("%s: Count = %d, Weight = %v, want %d", label, s.Count, s.Weight(), n)
	}
	if n == 0 {
		if s.Total != 0 {
			return fmt.Errorf("%s: empty accumulator has Total %v", label, s.Total)
		}
		return nil
	}
	nf := float64(n)
	eps := ref.Eps
	mn, mx, sumAbs, amax := xs[0], xs[0], 0.0, 0.0
	for _, x := range xs {
		mn, mx = math.Min(mn, x), math.Max(mx, x)
		sumAbs += math.Abs(x)
		amax = math.Max(amax, math.Abs(x))
	}
	if s.Min != mn || s.Max != mx {
		return fmt.Errorf("%s: Min,Max = %v,%v, want %v,%v", label, s.Min, s.Max, mn, mx)
	}
	if want := ref.F64(ref.Sum(xs)); !(math.Abs(s.Total-want) <= nf*eps*sumAbs) {
		return fmt.Errorf("%s: Total = %.17g, exact %.17g", label, s.Total, want)
	}
	mean := ref.F64(ref.Mean(xs))
	tolMean := cF * nf * eps * amax
	if !(math.Abs(s.Mean()-mean) <= tolMean) {
		return fmt.Errorf("%s: Mean = %.17g, exact %.17g (tol %.3g)", label, s.Mean(), mean, tolMean)
	}
	ev.MaxErr("mean", math.Abs(s.Mean()-mean)/tolMean)
	// RMS = sqrt(mean of squares)
	msq := ref.BI(0)
	for _, x := range xs {
		msq = ref.Add(msq, ref.Mul(ref.B(x), ref.B(x)))
	}
	rms := ref.F64(ref.Sqrt(ref.Quo(msq, ref.BI(n))))
	if !(math.Abs(s.RMS()-rms) <= cF*nf*eps*rms+1e-150) { // 1e-150: squares below 1e-300 lose bits to underflow
		return fmt.Errorf("%s: RMS = %.17g, exact %.17g", label, s.RMS(), rms)
	}
	ev.MaxErr("rms", math.Abs(s.RMS()-rms)/(cF*nf*eps*rms+1e-300))
	if n >= 2 {
		v := ref.Variance(xs)
		vf, sd := ref.F64(v), ref.F64(ref.Sqrt(v))
		kappa := 1.0
		if sd > 0 {
			kappa = 1 + math.Abs(mean)/sd
		}
		// 1e-300: squared deviations below the smallest normal float lose bits to (gradual) underflow
		tolV := cF*nf*eps*kappa*vf + 1e-300
		if v.Sign() == 0 {
			tolV = 0
		}
		if !(math.Abs(s.Variance()-vf) <= tolV) {
			return fmt.Errorf("%s: Variance = %.17g, exact %.17g (tol %.3g, kappa %.3g)", label, s.Variance(), vf, tolV, kappa)
		}
		ev.MaxErr("variance", math.Abs(s.Variance()-vf)/(tolV+1e-300))
		tolSD := cF*nf*eps*kappa*sd + 1e-150 // the square root of what the variance may lose to underflow
		if !(math.Abs(s.StdDev()-sd) <= tolSD) {
			return fmt.Errorf("%s: StdDev = %.17g, exact %.17g", label, s.StdDev(), sd)
		}
	}
	return nil
}

var checkHistory = ev.Register("stream-history", func(c *Case) ev.Outcome {
	if c.Acc < 1 || c.Acc > 8 {
		return ev.Fail("harness error: accumulators")
	}
	acc := make([]*stats.StreamStats, c.Acc)
	model := make([][]float64, c.Acc)
	for i := range acc {
		acc[i] = new(stats.StreamStats)
	}
	classes := map[string]bool{}
	nonEmptyCombine := false
	for step, op := range c.Ops {
		switch op.Kind {
		case "add":
			if op.I < 0 || op.I >= c.Acc {
				return ev.Fail("harness error: index")
			}
			acc[op.I].Add(op.X)
			model[op.I] = append(model[op.I], op.X)
		case "combine":
			if op.I < 0 || op.I >= c.Acc || op.J < 0 || op.J >= c.Acc || op.I == op.J {
				return ev.Fail("harness error: combine indices")
			}
			before := *acc[op.J]
			switch {
			case len(model[op.I]) == 0 && len(model[op.J]) == 0:
				classes["combine-both-empty"] = true
			case len(model[op.I]) == 0:
				classes["combine-empty-dst"] = true
			case len(model[op.J]) == 0:
				classes["combine-empty-src"] = true
			default:
				classes["combine-nonempty"] = true
			}
			if len(model[op.I]) > 0 || len(model[op.J]) > 0 {
				nonEmptyCombine = true
			}
			acc[op.I].Combine(acc[op.J])
			if fmt.Sprintf("%+v", *acc[op.J]) != fmt.Sprintf("%+v", before) { // NaN-aware
				return ev.Fail("step %d: Combine modified its argument: %+v -> %+v", step, before, *acc[op.J])
			}
			if len(model[op.I])+len(model[op.J]) > 100000 {
				return ev.Fail("harness error: history grows beyond 100000 values")
			}
			model[op.I] = append(append([]float64(nil), model[op.I]...), model[op.J]...)
		default:
			return ev.Fail("harness error: op")
		}
		// the exact comparison costs O(n): after an Add it is made while the accumulator is
		// small and then every 16th step; after a Combine always; and for everything at the end
		if op.Kind == "combine" || len(model[op.I]) <= 8 || step%16 == 0 {
			if err := compare(acc[op.I], model[op.I], fmt.Sprintf("step %d (%s) accumulator %d", step, op.Kind, op.I)); err != nil {
				return ev.Outcome{Err: err}
			}
		}
	}
	nt := false
	for i := range acc {
		if err := compare(acc[i], model[i], fmt.Sprintf("final accumulator %d", i)); err != nil {
			return ev.Outcome{Err: err}
		}
		if nonEmptyCombine && len(model[i]) >= 2 {
			nt = true
		}
	}
	var cl []string
	for _, k := range []string{"combine-both-empty", "combine-empty-dst", "combine-empty-src", "combine-nonempty"} {
		if classes[k] {
			cl = append(cl, k)
		}
	}
	return ev.OK(nt, cl...)
})

// SplitCase: every split point of one stream.
type SplitCase struct {
	Xs []float64 `json:"xs"`
}

var checkSplit = ev.Register("stream-split", func(c *SplitCase) ev.Outcome {
	step := 1
	if len(c.Xs) > 100 {
		step = 7 // long streams: every 7th split point (and the ends), enough to cross every size class
	}
	for k := 0; k <= len(c.Xs); k += step {
		var a, b stats.StreamStats
		for _, x := range c.Xs[:k] {
			a.Add(x)
		}
		for _, x := range c.Xs[k:] {
			b.Add(x)
		}
		a.Combine(&b)
		if err := compare(&a, c.Xs, fmt.Sprintf("split at %d of %d", k, len(c.Xs))); err != nil {
			return ev.Outcome{Err: err}
		}
		// and the other way round
		var a2, b2 stats.StreamStats
		for _, x := range c.Xs[:k] {
			a2.Add(x)
		}
		for _, x := range c.Xs[k:] {
			b2.Add(x)
		}
		b2.Combine(&a2)
		if err := compare(&b2, c.Xs, fmt.Sprintf("split at %d of %d, suffix.Combine(prefix)", k, len(c.Xs))); err != nil {
			return ev.Outcome{Err: err}
		}
	}
	return ev.OK(len(c.Xs) >= 2, "every-split")
})

const rule = "StreamStats: rapid-generated histories over 1..6 accumulators of up to 200 Add(i,x) and Combine(dst,src) steps (dst!=src; " +
	"empty, non-empty, repeated and nested merges), values offset+spread*z with offsets up to 1e6 spreads of both signs; model = " +
	"multiset per accumulator; after every step the touched accumulator, and at the end every accumulator, is compared with " +
	"400-bit batch values of Count, Weight, Total, Min, Max, Mean, RMS, Variance, StdDev; the source of a Combine must stay " +
	"bit-identical. Plus: every split point of generated streams, both merge directions. Non-trivial: a Combine with a non-empty " +
	"side occurred and the accumulator holds >=2 values. distinct = canonical JSON of the history. Later additions: adjacent-float values, long split streams, non-stationary streams (first or a middle value an outlier 20..1e6 spreads away, one level shift)."

// drawValues returns the source of the values of one case. A stream is not always stationary:
// in a quarter of the cases the very first value (the one an algorithm would take as its
// provisional centre), or a value somewhere in the middle, lies far from the cluster formed by
// all the others, or the level shifts once.
func drawValues(t *rapid.T) func(label string) float64 {
	f, spread := drawStationary(t)
	switch rapid.IntRange(0, 11).Draw(t, "nonStationary") {
	case 0, 1: // an outlier first (or at position k): distance 20 .. 1e6 spreads
		at := 1
		if rapid.IntRange(0, 2).Draw(t, "outlierLater") == 0 {
			at = rapid.IntRange(2, 150).Draw(t, "outlierAt")
		}
		d := gen.Sign(t, "outlierSign") * spread * gen.LogUniform(t, 20, 1e6, "outlierDistance")
		count := 0
		return func(label string) float64 {
			count++
			if count == at {
				return f(label) + d
			}
			return f(label)
		}
	case 2: // a level shift
		at := rapid.IntRange(1, 150).Draw(t, "shiftAt")
		d := gen.Sign(t, "shiftSign") * spread * gen.LogUniform(t, 20, 1e6, "shiftBy")
		count := 0
		return func(label string) float64 {
			count++
			if count > at {
				return f(label) + d
			}
			return f(label)
		}
	}
	return f
}

func drawStationary(t *rapid.T) (func(label string) float64, float64) {
	spread := gen.LogUniform(t, 1e-3, 1e3, "spread")
	ratio := 0.0
	switch rapid.IntRange(0, 2).Draw(t, "offsetKind") {
	case 1:
		ratio = gen.LogUniform(t, 1, 1e3, "ratio")
	case 2:
		ratio = gen.LogUniform(t, 1e3, 1e6, "ratioBig")
	}
	offset := gen.Sign(t, "sign") * ratio * spread
	if rapid.IntRange(0, 7).Draw(t, "ulps") == 0 {
		// adjacent floats: values a few ulps apart, whose running mean rounds onto one of them
		b := rapid.SampledFrom([]float64{1, 0x1p53, 1e15, 0.1, -3, 1e-300}).Draw(t, "ulpBase")
		if rapid.Bool().Draw(t, "ulpAtOffset") && offset != 0 {
			b = offset
		}
		return func(label string) float64 {
			x := b
			for k := rapid.IntRange(0, 3).Draw(t, label); k > 0; k-- {
				x = math.Nextafter(x, math.Inf(1))
			}
			return x
		}, math.Abs(b) * 1e-15
	}
	if rapid.IntRange(0, 3).Draw(t, "pool") == 0 {
		// a small pool of exactly representable values: runs of identical values, parts with
		// exactly equal means, constant parts
		k := rapid.IntRange(1, 4).Draw(t, "poolSize")
		base := math.Round(offset)
		return func(label string) float64 {
			return base + float64(rapid.IntRange(0, k-1).Draw(t, label))
		}, 1
	}
	return func(label string) float64 {
		// quantised: rapid's floats include values like 1e-155 whose square underflows
		return offset + spread*math.Round(rapid.Float64Range(-1, 1).Draw(t, label)*1e6)/1e6
	}, spread
}

func drawHistory(rt *rapid.T, maxAcc, maxSteps int, val func(string) float64) *Case {
	c := &Case{Acc: rapid.IntRange(1, maxAcc).Draw(rt, "acc")}
	n := rapid.IntRange(1, maxSteps).Draw(rt, "steps")
	size := make([]int, c.Acc) // repeated merges double the counts: keep every accumulator at <= 400 values
	for i := 0; i < n; i++ {
		if c.Acc >= 2 && rapid.IntRange(0, 3).Draw(rt, "isCombine") == 0 {
			d := rapid.IntRange(0, c.Acc-1).Draw(rt, "dst")
			s := rapid.IntRange(0, c.Acc-2).Draw(rt, "src")
			if s >= d {
				s++
			}
			if size[d]+size[s] > 400 {
				continue
			}
			size[d] += size[s]
			c.Ops = append(c.Ops, Op{Kind: "combine", I: d, J: s})
		} else {
			into := rapid.IntRange(0, c.Acc-1).Draw(rt, "into")
			size[into]++
			c.Ops = append(c.Ops, Op{Kind: "add", I: into, X: val("x")})
		}
	}
	return c
}

func TestHistories(t *testing.T) {
	ev.Rule(rule)
	ev.Rapid(t, "c13-history", 6000, 160000, func(rt *rapid.T) {
		val := drawValues(rt)
		maxSteps := 60
		if rapid.IntRange(0, 9).Draw(rt, "long") == 0 {
			maxSteps = 200
		}
		checkHistory.Run(rt, drawHistory(rt, 6, maxSteps, val))
	})
}

func TestSplits(t *testing.T) {
	ev.Rule(rule)
	ev.Rapid(t, "c13-split", 1500, 30000, func(rt *rapid.T) {
		val := drawValues(rt)
		n := rapid.IntRange(0, 40).Draw(rt, "n")
		if rapid.IntRange(0, 7).Draw(rt, "long") == 0 {
			// long streams: both parts of a split beyond any size threshold (64, 128, 256) at
			// which an implementation might switch formulas
			n = rapid.IntRange(130, 560).Draw(rt, "nlong")
		}
		c := &SplitCase{Xs: []float64{}}
		for i := 0; i < n; i++ {
			c.Xs = append(c.Xs, val("x"))
		}
		checkSplit.Run(rt, c)
	})
}

// FuzzStream is the native coverage-guided front end (thorough tier).
func FuzzStream(f *testing.F) {
	f.Add(make([]byte, 64))
	f.Add([]byte("\x05\x01\x02\x03\x04\x05\x06\x07\x08\x09\x0a\x0b\x0c\x0d\x0e\x0f\x10\x11\x12\x13\x14\x15\x16\x17\x18\x19\x1a\x1b\x1c\x1d\x1e\x1f"))
	f.Fuzz(rapid.MakeFuzz(func(rt *rapid.T) {
		checkHistory.Run(rt, drawHistory(rt, 4, 30, func(l string) float64 {
			return float64(rapid.IntRange(-1000, 1000).Draw(rt, l)) / 8
		}))
	}))
}
