// Package c04 decides property C04: t-tests and MeanCI return the textbook
// statistic, degrees of freedom and Student-t tails.
package c04

import (
	"fmt"
	"math"
	"math/big"
	"testing"

	"github.com/aclements/go-moremath/stats"
	"pgregory.net/rapid"

	"verifharness/internal/ev"
	"verifharness/internal/gen"
	"verifharness/internal/ref"
)

func TestMain(m *testing.M) { ev.Main(m, "C04") }

func TestReplay(t *testing.T) { ev.Replay(t) }

// Case is one t-test call plus the transformations used for the laws.
type Case struct {
	Kind  string    `json:"kind"` // pooled, welch, paired, one
	X1    []float64 `json:"x1"`
	X2    []float64 `json:"x2"`
	Mu0   float64   `json:"mu0"`
	Alt   int       `json:"alt"`
	Shift float64   `json:"shift"` // added to all data (and mu0 for one-sample)
	Scale float64   `json:"scale"` // positive factor applied to all data (and mu0)
}

const cT = 64.0 // safety factor on the forward error bounds

func allEqual(xs []float64) bool {
	for _, x := range xs {
		if x != xs[0] {
			return false
		}
	}
	return true
}

// inDomain reports whether a sample is inside the property's quantifier: constant
// (the zero-variance clause) or with a relative spread sd/max(1,|mean|) of at least 1e-6
// and magnitudes up to 1e6 (a little slack for the transformed copies).
func inDomain(xs []float64) bool {
	if len(xs) < 2 || allEqual(xs) {
		return true
	}
	if absMax(xs) > 1e10 {
		return false
	}
	m := math.Abs(ref.F64(ref.Mean(xs)))
	return sd64(xs) >= 1e-6*math.Max(1, m)
}

func diffs(x1, x2 []float64) []float64 {
	d := make([]float64, len(x1))
	for i := range x1 {
		d[i] = x1[i] - x2[i]
	}
	return d
}

type tref struct {
	T, DoF float64
	tolT   float64 // absolute tolerance on T
	sd     float64 // paired: standard deviation of the differences
	tolDoF float64 // absolute tolerance on DoF
}

func sd64(xs []float64) float64 { return ref.F64(ref.Sqrt(ref.Variance(xs))) }

func absMax(xs []float64) float64 {
	m := 0.0
	for _, x := range xs {
		if math.Abs(x) > m {
			m = math.Abs(x)
		}
	}
	return m
}

// reference computes the textbook statistic in 400-bit arithmetic from the
// exact float inputs, with a forward error bound for the float64 computation.
func reference(kind string, x1, x2 []float64, mu0 float64) tref {
	eps := ref.Eps
	switch kind {
	case "pooled", "welch":
		n1, n2 := len(x1), len(x2)
		m1, m2 := ref.Mean(x1), ref.Mean(x2)
		v1, v2 := ref.BI(0), ref.BI(0)
		if n1 >= 2 {
			v1 = ref.Variance(x1)
		}
		if n2 >= 2 {
			v2 = ref.Variance(x2)
		}
		var se2, dof *big.Float
		if kind == "pooled" {
			dof = ref.BI(n1 + n2 - 2)
			v12 := ref.Quo(ref.Add(ref.Mul(ref.BI(n1-1), v1), ref.Mul(ref.BI(n2-1), v2)), dof)
			se2 = ref.Mul(v12, ref.Add(ref.Quo(ref.BI(1), ref.BI(n1)), ref.Quo(ref.BI(1), ref.BI(n2))))
		} else {
			a, b := ref.Quo(v1, ref.BI(n1)), ref.Quo(v2, ref.BI(n2))
			se2 = ref.Add(a, b)
			num := ref.Mul(se2, se2)
			den := ref.Add(ref.Quo(ref.Mul(a, a), ref.BI(n1-1)), ref.Quo(ref.Mul(b, b), ref.BI(n2-1)))
			dof = ref.Quo(num, den)
		}
		se := ref.Sqrt(se2)
		T := ref.F64(ref.Quo(ref.Sub(m1, m2), se))
		n := float64(n1 + n2)
		sef := ref.F64(se)
		// conditioning of each variance: 1 + |mean|/sd (sd of the sample; a zero-variance
		// sample is computed exactly)
		kappa := 1.0
		for _, xs := range [][]float64{x1, x2} {
			if len(xs) >= 2 && !allEqual(xs) {
				k := 1 + math.Abs(ref.F64(ref.Mean(xs)))/sd64(xs)
				if k > kappa {
					kappa = k
				}
			}
		}
		tolT := cT*n*eps*((absMax(x1)+absMax(x2))/sef+kappa*math.Abs(T)) + 1e-14
		d := ref.F64(dof)
		return tref{T: T, DoF: d, tolT: tolT, tolDoF: cT * n * eps * kappa * d * 4}
	case "paired":
		n := len(x1)
		diff := make([]*big.Float, n)
		sum := ref.BI(0)
		maxd := 0.0
		for i := range x1 {
			diff[i] = ref.Sub(ref.B(x1[i]), ref.B(x2[i]))
			sum = ref.Add(sum, diff[i])
			if a := math.Abs(ref.F64(diff[i])); a > maxd {
				maxd = a
			}
		}
		mean := ref.Quo(sum, ref.BI(n))
		ss := ref.BI(0)
		for _, d := range diff {
			e := ref.Sub(d, mean)
			ss = ref.Add(ss, ref.Mul(e, e))
		}
		sd := ref.Sqrt(ref.Quo(ss, ref.BI(n-1)))
		T := ref.F64(ref.Quo(ref.Mul(ref.Sub(mean, ref.B(mu0)), ref.Sqrt(ref.BI(n))), sd))
		sdf := ref.F64(sd)
		kappa := 1 + math.Abs(ref.F64(mean))/sdf
		nf := float64(n)
		// each float difference x1[i]-x2[i] carries a relative rounding error eps
		tolT := cT*nf*eps*((maxd+math.Abs(mu0))*math.Sqrt(nf)/sdf+kappa*math.Abs(T)) + 1e-14
		return tref{T: T, DoF: float64(n - 1), tolT: tolT, sd: sdf}
	default: // one
		n := len(x1)
		mean := ref.Mean(x1)
		sd := ref.Sqrt(ref.Variance(x1))
		T := ref.F64(ref.Quo(ref.Mul(ref.Sub(mean, ref.B(mu0)), ref.Sqrt(ref.BI(n))), sd))
		sdf := ref.F64(sd)
		kappa := 1 + math.Abs(ref.F64(mean))/sdf
		nf := float64(n)
		tolT := cT*nf*eps*((absMax(x1)+math.Abs(mu0))*math.Sqrt(nf)/sdf+kappa*math.Abs(T)) + 1e-14
		return tref{T: T, DoF: float64(n - 1), tolT: tolT}
	}
}

func call(kind string, x1, x2 []float64, mu0 float64, alt int) (*stats.TTestResult, error) {
	a := stats.LocationHypothesis(alt)
	switch kind {
	case "pooled":
		return stats.TwoSampleTTest(stats.Sample{Xs: x1}, stats.Sample{Xs: x2}, a)
	case "welch":
		return stats.TwoSampleWelchTTest(stats.Sample{Xs: x1}, stats.Sample{Xs: x2}, a)
	case "paired":
		return stats.PairedTTest(x1, x2, mu0, a)
	default:
		return stats.OneSampleTTest(stats.Sample{Xs: x1}, mu0, a)
	}
}

// wantError is the documented error behaviour.
func wantError(kind string, x1, x2 []float64) error {
	switch kind {
	case "pooled":
		if len(x1) == 0 || len(x2) == 0 {
			return stats.ErrSampleSize
		}
		if allEqual(x1) && allEqual(x2) {
			return stats.ErrZeroVariance
		}
	case "welch":
		if len(x1) <= 1 || len(x2) <= 1 {
			return stats.ErrSampleSize
		}
		if allEqual(x1) && allEqual(x2) {
			return stats.ErrZeroVariance
		}
	case "paired":
		if len(x1) != len(x2) {
			return stats.ErrMismatchedSamples
		}
		if len(x1) <= 1 {
			return stats.ErrSampleSize
		}
		d0 := x1[0] - x2[0]
		same := true
		for i := range x1 {
			if x1[i]-x2[i] != d0 {
				same = false
			}
		}
		if same {
			return stats.ErrZeroVariance
		}
	default:
		if len(x1) == 0 {
			return stats.ErrSampleSize
		}
		if allEqual(x1) {
			return stats.ErrZeroVariance
		}
	}
	return nil
}

func tailP(T, dof float64, alt int) float64 {
	switch alt {
	case -1:
		return ref.TCDF(T, dof)
	case 1:
		return ref.TUpper(T, dof)
	}
	return 2 * ref.TUpper(math.Abs(T), dof)
}

func transform(xs []float64, shift, scale float64) []float64 {
	out := make([]float64, len(xs))
	for i, x := range xs {
		out[i] = (x + shift) * scale
	}
	return out
}

func sameBits(a, b []float64) bool {
	if len(a) != len(b) {
		return false
	}
	for i := range a {
		if math.Float64bits(a[i]) != math.Float64bits(b[i]) {
			return false
		}
	}
	return true
}

// withSpare copies xs into a buffer with spare capacity filled with a sentinel.
func withSpare(xs []float64) []float64 {
	out := make([]float64, len(xs), 3*len(xs)+4)
	copy(out, xs)
	full := out[:cap(out)]
	for i := len(xs); i < len(full); i++ {
		full[i] = -3.25e99
	}
	return out
}

func untouched(buf, orig []float64) bool {
	full := buf[:cap(buf)]
	for i, x := range full {
		if i < len(orig) {
			if math.Float64bits(x) != math.Float64bits(orig[i]) {
				return false
			}
		} else if x != -3.25e99 {
			return false
		}
	}
	return len(buf) == len(orig)
}

var checkTTest = ev.Register("ttest", func(c *Case) ev.Outcome {
	x1 := withSpare(c.X1)
	x2 := withSpare(c.X2)
	if !inDomain(c.X1) || !inDomain(c.X2) || (c.Kind == "paired" && len(c.X1) == len(c.X2) && !inDomain(diffs(c.X1, c.X2))) {
		// relative spread below 1e-6: outside the quantifier of the property
		call(c.Kind, x1, x2, c.Mu0, c.Alt) // must still not panic
		return ev.OK(false, "outside-domain")
	}
	r, err := call(c.Kind, x1, x2, c.Mu0, c.Alt)
	want := wantError(c.Kind, c.X1, c.X2)
	if err != want {
		return ev.Fail("%s: error %v, want %v", c.Kind, err, want)
	}
	// The same call with the two samples as two windows of ONE array: a small gap apart, and
	// - when one sample is a value-for-value prefix of the other - as data[:k] and data (the same
	// first element, different lengths). Errors and results must be those of separate slices.
	if c.Kind != "one" {
		layouts := [][2][]float64{}
		n1, n2 := len(c.X1), len(c.X2)
		buf := make([]float64, 0, n1+1+n2+8)
		buf = append(buf, c.X1...)
		buf = append(buf, -3.25e99)
		buf = append(buf, c.X2...)
		layouts = append(layouts, [2][]float64{buf[:n1], buf[n1+1 : n1+1+n2]})
		short, long, swapped := c.X1, c.X2, false
		if len(short) > len(long) {
			short, long, swapped = c.X2, c.X1, true
		}
		if len(short) > 0 && len(short) < len(long) && sameBits(short, long[:len(short)]) {
			data := append(make([]float64, 0, 2*len(long)+3), long...)
			a, b := data[:len(short)], data
			if swapped {
				a, b = b, a
			}
			layouts = append(layouts, [2][]float64{a, b})
		}
		for li, l := range layouts {
			before := append([]float64(nil), l[0][:cap(l[0])]...)
			r2, err2 := call(c.Kind, l[0], l[1], c.Mu0, c.Alt)
			if !sameBits(before, l[0][:cap(l[0])]) {
				return ev.Fail("%s: arguments given as windows of one array (layout %d) were modified", c.Kind, li)
			}
			if err2 != err || (err == nil && (math.Float64bits(r2.T) != math.Float64bits(r.T) || math.Float64bits(r2.P) != math.Float64bits(r.P) || r2.DoF != r.DoF)) {
				return ev.Fail("%s: with the samples given as windows of one array (layout %d: lengths %d and %d) the result is %+v, %v; on separate slices %+v, %v", c.Kind, li, len(l[0]), len(l[1]), r2, err2, r, err)
			}
		}
	}
	classes := []string{c.Kind, fmt.Sprintf("alt=%d", c.Alt)}
	if want != nil {
		if r != nil {
			return ev.Fail("%s: result together with error", c.Kind)
		}
		return ev.OK(false, append(classes, "error-case")...)
	}
	// The value claims are made for samples with at least two values each.
	if len(c.X1) < 2 || (c.Kind != "one" && len(c.X2) < 2) {
		return ev.OK(false, append(classes, "n<2-no-value-claim")...)
	}
	tr := reference(c.Kind, c.X1, c.X2, c.Mu0)
	wantN2 := len(c.X2)
	if c.Kind == "one" {
		wantN2 = 0
	}
	if r.N1 != len(c.X1) || r.N2 != wantN2 || int(r.AltHypothesis) != c.Alt {
		return ev.Fail("%s: N1,N2,Alt = %d,%d,%d", c.Kind, r.N1, r.N2, r.AltHypothesis)
	}
	if !(math.Abs(r.T-tr.T) <= tr.tolT) {
		return ev.Fail("%s: T = %.17g, textbook %.17g (|diff| %.3g > tol %.3g)", c.Kind, r.T, tr.T, math.Abs(r.T-tr.T), tr.tolT)
	}
	ev.MaxErr("T", math.Abs(r.T-tr.T)/tr.tolT)
	if c.Kind == "welch" {
		if !(math.Abs(r.DoF-tr.DoF) <= tr.tolDoF) {
			return ev.Fail("welch: DoF = %.17g, Welch-Satterthwaite %.17g (tol %.3g)", r.DoF, tr.DoF, tr.tolDoF)
		}
		ev.MaxErr("DoF", math.Abs(r.DoF-tr.DoF)/tr.tolDoF)
	} else if r.DoF != tr.DoF {
		return ev.Fail("%s: DoF = %v, want %v", c.Kind, r.DoF, tr.DoF)
	}
	// P from the returned T and DoF through an independent Student-t CDF
	wantP := tailP(r.T, r.DoF, c.Alt)
	if !(math.Abs(r.P-wantP) <= 1e-9) {
		return ev.Fail("%s alt=%d: P = %.15g, Student-t tail of (T=%v, DoF=%v) is %.15g", c.Kind, c.Alt, r.P, r.T, r.DoF, wantP)
	}
	ev.MaxErr("P", math.Abs(r.P-wantP)/1e-9)
	if !(r.P >= 0 && r.P <= 1+1e-12) {
		return ev.Fail("P = %v outside [0,1]", r.P)
	}

	// swap law (two-sample and paired; for paired mu0 is negated as well)
	if c.Kind != "one" {
		s, err := call(c.Kind, x2, x1, -c.Mu0, -c.Alt)
		if err != nil {
			return ev.Fail("swapped call: error %v", err)
		}
		if !(math.Abs(s.T+r.T) <= 8*ref.Eps*math.Abs(r.T)) {
			return ev.Fail("swap law: T = %v, swapped T = %v", r.T, s.T)
		}
		if !(math.Abs(s.P-r.P) <= 1e-12) || !(math.Abs(s.DoF-r.DoF) <= 8*ref.Eps*r.DoF) {
			return ev.Fail("swap law: alt=%d P=%v DoF=%v, swapped alt=%d P=%v DoF=%v", c.Alt, r.P, r.DoF, -c.Alt, s.P, s.DoF)
		}
	}
	// shift / positive scale invariance
	y1, y2 := transform(c.X1, c.Shift, c.Scale), transform(c.X2, c.Shift, c.Scale)
	mu := c.Mu0
	switch c.Kind {
	case "one":
		mu = (c.Mu0 + c.Shift) * c.Scale
	case "paired":
		mu = c.Mu0 * c.Scale
	}
	if wantError(c.Kind, y1, y2) == nil && inDomain(y1) && inDomain(y2) && (c.Kind != "paired" || inDomain(diffs(y1, y2))) {
		tr2 := reference(c.Kind, y1, y2, mu)
		s, err := call(c.Kind, y1, y2, mu, c.Alt)
		if err != nil {
			return ev.Fail("transformed call: error %v", err)
		}
		// the transformed data are rounded, so their exact statistic differs from the
		// original by the perturbation, which the transformed tolerance already bounds
		tol := 4 * (tr.tolT + tr2.tolT)
		if c.Kind == "paired" {
			// (x1+s)-(x2+s) equals x1-x2 only up to the rounding of the shifted and scaled
			// values: each difference moves by up to pd, which moves the mean by pd and the
			// standard deviation by about pd.
			pd := 4 * ref.Eps * (absMax(y1) + absMax(y2))
			nf := math.Sqrt(float64(len(y1)))
			tol += 4 * pd / tr2.sd * (nf + 2*math.Abs(tr2.T))
		}
		if !(math.Abs(s.T-r.T) <= tol) {
			return ev.Fail("%s: shift %v / scale %v changes T from %.17g to %.17g (tol %.3g)", c.Kind, c.Shift, c.Scale, r.T, s.T, tol)
		}
		ev.MaxErr("T-invariance", math.Abs(s.T-r.T)/tol)
		tolD := 4*(tr.tolDoF+tr2.tolDoF) + 1e-300
		if c.Kind != "welch" {
			tolD = 0
		}
		if !(math.Abs(s.DoF-r.DoF) <= tolD) {
			return ev.Fail("%s: shift/scale changes DoF from %v to %v", c.Kind, r.DoF, s.DoF)
		}
		// P follows T: bound the change through the reference tail at T +/- tol
		lo, hi := tailP(r.T-tol, r.DoF, c.Alt), tailP(r.T+tol, r.DoF, c.Alt)
		if c.Alt == 0 {
			lo, hi = tailP(math.Abs(r.T)+tol, r.DoF, 0), tailP(math.Max(0, math.Abs(r.T)-tol), r.DoF, 0)
		}
		if lo > hi {
			lo, hi = hi, lo
		}
		slack := 1e-9 + tolD // |dP/dDoF| < 0.2 for DoF >= 1
		if !(s.P >= lo-slack && s.P <= hi+slack) {
			return ev.Fail("%s: shift/scale changes P from %.15g to %.15g (allowed [%.15g,%.15g])", c.Kind, r.P, s.P, lo-slack, hi+slack)
		}
	} else {
		classes = append(classes, "transform-degenerate")
	}
	if c.Kind == "welch" && len(c.X1) != len(c.X2) && stats.Variance(c.X1) == stats.Variance(c.X2) {
		classes = append(classes, "welch-equal-variance-unequal-n")
	}
	if !untouched(x1, c.X1) || !untouched(x2, c.X2) {
		return ev.Fail("%s modified its arguments (or their spare capacity)", c.Kind)
	}
	nt := r.P > 1e-12 && r.P < 1-1e-12
	return ev.OK(nt, classes...)
})

// CICase is one MeanCI call.
type CICase struct {
	Xs []float64 `json:"xs"`
	C  float64   `json:"c"`
}

var checkMeanCI = ev.Register("meanci", func(c *CICase) ev.Outcome {
	xs := append([]float64(nil), c.Xs...)
	mean, lo, hi := stats.MeanCI(xs, c.C)
	n := len(c.Xs)
	if n == 0 {
		if !math.IsNaN(mean) || !math.IsNaN(lo) || !math.IsNaN(hi) {
			return ev.Fail("empty input: got %v,%v,%v, want NaN", mean, lo, hi)
		}
		return ev.OK(false, "empty")
	}
	m := ref.F64(ref.Mean(c.Xs))
	if !(math.Abs(mean-m) <= 8*float64(n)*ref.Eps*absMax(c.Xs)) {
		return ev.Fail("mean = %.17g, exact %.17g", mean, m)
	}
	// MeanCI must agree with the Sample method too
	m2, l2, h2 := stats.Sample{Xs: xs}.MeanCI(c.C)
	if !same(m2, mean) || !same(l2, lo) || !same(h2, hi) {
		return ev.Fail("Sample.MeanCI differs from MeanCI: %v,%v,%v vs %v,%v,%v", m2, l2, h2, mean, lo, hi)
	}
	switch {
	case n == 1 && c.C <= 0:
		// the two clauses of the statement overlap here; nothing asserted beyond the mean
		return ev.OK(false, "n=1,c<=0")
	case c.C <= 0:
		if lo != mean || hi != mean {
			return ev.Fail("c=%v<=0: interval [%v,%v] around %v is not of zero width", c.C, lo, hi, mean)
		}
		return ev.OK(false, "c<=0")
	case c.C >= 1 || n <= 1:
		if !math.IsInf(lo, -1) || !math.IsInf(hi, 1) {
			return ev.Fail("c=%v n=%d: interval [%v,%v], want infinite", c.C, n, lo, hi)
		}
		return ev.OK(false, "infinite")
	}
	if !inDomain(c.Xs) {
		return ev.OK(false, "outside-domain")
	}
	if allEqual(c.Xs) {
		if lo != mean || hi != mean {
			return ev.Fail("constant sample: interval [%v,%v] around %v", lo, hi, mean)
		}
		return ev.OK(false, "constant")
	}
	// symmetric about the mean
	wlo, whi := mean-lo, hi-mean
	if !(math.Abs(wlo-whi) <= 4*ref.Eps*(math.Abs(mean)+math.Abs(whi))) {
		return ev.Fail("interval not symmetric: mean-lo=%v hi-mean=%v", wlo, whi)
	}
	if !(whi >= 0) {
		return ev.Fail("negative half width %v for c=%v", whi, c.C)
	}
	if whi == 0 {
		// content 0: acceptable only for a confidence level within the tolerance of 0
		if c.C > 1e-9 {
			return ev.Fail("zero-width interval for c=%v", c.C)
		}
		return ev.OK(true, "content-zero-width")
	}
	sd := sd64(c.Xs)
	// half-width in units of the standard error; cancellation in hi-mean costs
	// eps*|mean|/halfwidth relative
	t := whi * math.Sqrt(float64(n)) / sd
	relT := 4*ref.Eps*(math.Abs(mean)+whi)/whi + cT*float64(n)*ref.Eps*(1+math.Abs(m)/sd)
	content := 1 - 2*ref.TUpper(t, float64(n-1))
	// d content / dt = 2 pdf(t) <= 0.8
	tol := 1e-9 + 0.8*t*relT
	if !(math.Abs(content-c.C) <= tol) {
		return ev.Fail("Student-t content of the interval is %.12g, requested %.12g (n=%d, t=%v, tol %.3g)", content, c.C, n, t, tol)
	}
	ev.MaxErr("content", math.Abs(content-c.C)/tol)
	return ev.OK(true, "content")
})

func same(a, b float64) bool {
	return a == b || (math.IsNaN(a) && math.IsNaN(b))
}

const rule = "t-tests: rapid-generated samples (n 0..40; data = centre + spread*z, |centre|<=1e6, spread>=1e-6*max(1,|centre|), " +
	"z from four shapes) for the four tests, three alternatives, mu0 near or far; T and DoF vs 400-bit recomputation with a " +
	"forward error bound, P vs an independent Student-t CDF (gonum mathext, anchored to closed forms for 1..4 dof) of the " +
	"returned (T,DoF) to 1e-9, documented errors, swap law, shift/scale invariance. MeanCI: n 0..40, c in [0,1] and beyond; " +
	"mean, symmetry, zero/infinite width rules, Student-t probability content within 1e-9 of c. Non-trivial: no error and " +
	"1e-12<P<1-1e-12 (t-test); 0<c<1 with n>=2 non-constant (MeanCI). distinct = different canonical JSON. Later additions: MeanCI at every n in 2..40 for the levels k/512; two-sample calls on windows of one array."

func drawData(t *rapid.T, n int, label string) []float64 {
	centre := 0.0
	switch rapid.IntRange(0, 3).Draw(t, label+".centreKind") {
	case 0:
	case 1:
		centre = rapid.Float64Range(-10, 10).Draw(t, label+".centre")
	default:
		centre = gen.Sign(t, label+".csign") * gen.LogUniform(t, 1, 1e6, label+".centre")
	}
	minSpread := 1e-6 * math.Max(1, math.Abs(centre))
	spread := gen.LogUniform(t, minSpread, math.Max(minSpread*10, 1e6), label+".spread")
	if m := math.Abs(centre) + 21*spread; m > 1e6 {
		// keep |x| <= 1e6 without changing the relative spread
		centre, spread = centre*1e6/m, spread*1e6/m
	}
	shape := rapid.IntRange(0, 4).Draw(t, label+".shape")
	if shape == 4 {
		// small integers: coincidences such as two samples of different size with
		// bit-identical variance ({10,12} and {3,3,4,6}) only occur on such data
		base := float64(rapid.IntRange(-3, 12).Draw(t, label+".ibase"))
		span := rapid.IntRange(1, 3).Draw(t, label+".ispan")
		xs := make([]float64, n)
		for i := range xs {
			xs[i] = base + float64(rapid.IntRange(0, span).Draw(t, label+".iv"))
		}
		return xs
	}
	xs := make([]float64, n)
	for i := range xs {
		var z float64
		switch shape {
		case 0: // bell-ish: sum of three uniforms
			z = gen.Unit(t, label+".z") + gen.Unit(t, label+".z") + gen.Unit(t, label+".z")
		case 1: // two-point
			z = float64(2*rapid.IntRange(0, 1).Draw(t, label+".z") - 1)
		case 2: // one outlier
			if i == 0 {
				z = 20
			} else {
				z = gen.Unit(t, label+".z")
			}
		default: // constant but one
			if i == n-1 {
				z = 1
			}
		}
		xs[i] = centre + spread*z
	}
	return xs
}

func drawCase(t *rapid.T) *Case {
	c := &Case{Kind: rapid.SampledFrom([]string{"pooled", "welch", "paired", "one"}).Draw(t, "kind"), Alt: rapid.IntRange(-1, 1).Draw(t, "alt")}
	sizeKind := rapid.IntRange(0, 9).Draw(t, "sizeKind")
	n1, n2 := rapid.IntRange(2, 40).Draw(t, "n1"), rapid.IntRange(2, 40).Draw(t, "n2")
	if rapid.IntRange(0, 2).Draw(t, "smallSizes") == 0 {
		n1, n2 = rapid.IntRange(2, 6).Draw(t, "n1s"), rapid.IntRange(2, 6).Draw(t, "n2s")
	}
	if sizeKind == 0 { // error territory
		n1, n2 = rapid.IntRange(0, 2).Draw(t, "n1e"), rapid.IntRange(0, 2).Draw(t, "n2e")
	}
	if c.Kind == "paired" && sizeKind != 1 {
		n2 = n1
	}
	c.X1 = drawData(t, n1, "x1")
	if c.Kind != "one" {
		if rapid.IntRange(0, 3).Draw(t, "related") == 0 && n2 <= n1 {
			// second sample = first plus noise: similar location, exercises small |T|
			c.X2 = make([]float64, n2)
			noise := drawData(t, n2, "noise")
			for i := range c.X2 {
				c.X2[i] = c.X1[i] + (noise[i]-noise[0])*1e-3
			}
		} else {
			c.X2 = drawData(t, n2, "x2")
		}
	}
	if (c.Kind == "welch" || c.Kind == "pooled") && rapid.IntRange(0, 5).Draw(t, "equalVar") == 0 {
		// two samples of different size whose variances are equal (2m^2): {0,2m} and {0,0,m,3m},
		// shifted by integers and shuffled
		m := rapid.SampledFrom([]float64{1, 2, 0.5, 4, 3}).Draw(t, "evScale")
		s1 := float64(rapid.IntRange(-20, 20).Draw(t, "evShift1"))
		s2 := float64(rapid.IntRange(-20, 20).Draw(t, "evShift2"))
		c.X1 = []float64{s1, s1 + 2*m}
		c.X2 = gen.Shuffled(t, []float64{s2, s2, s2 + m, s2 + 3*m}, "evPerm")
		if rapid.Bool().Draw(t, "evSwap") {
			c.X1, c.X2 = c.X2, c.X1
		}
	}
	if sizeKind == 2 && n1 > 0 { // zero variance
		for i := range c.X1 {
			c.X1[i] = c.X1[0]
		}
		if rapid.Bool().Draw(t, "bothConst") {
			for i := range c.X2 {
				c.X2[i] = c.X2[0]
			}
		}
	}
	switch rapid.IntRange(0, 2).Draw(t, "mu0Kind") {
	case 0:
	case 1:
		if n1 > 0 {
			c.Mu0 = c.X1[0] + rapid.Float64Range(-1, 1).Draw(t, "mu0off")
		}
	default:
		c.Mu0 = rapid.Float64Range(-1e6, 1e6).Draw(t, "mu0")
	}
	if c.Kind == "pooled" || c.Kind == "welch" {
		c.Mu0 = 0
	}
	c.Shift = rapid.SampledFrom([]float64{0, 1, -3.5, 1000, -123456.789}).Draw(t, "shift")
	c.Scale = rapid.SampledFrom([]float64{1, 2, 0.5, 3, 1e-3, 7.7}).Draw(t, "scale")
	return c
}

func TestTTests(t *testing.T) {
	ev.Rule(rule)
	ev.Rapid(t, "c04-ttest", 20000, 300000, func(rt *rapid.T) {
		c := drawCase(rt)
		if c.Kind != "one" && len(c.X1) > 0 && len(c.X2) > 0 && rapid.IntRange(0, 7).Draw(rt, "prefix") == 0 {
			// one sample is (value for value) a prefix of the other
			if len(c.X1) <= len(c.X2) {
				copy(c.X1, c.X2[:len(c.X1)])
			} else {
				copy(c.X2, c.X1[:len(c.X2)])
			}
		}
		checkTTest.Run(rt, c)
	})
}

// TestMeanCIGrid: the customary confidence levels at every sample size 2..40 (a table of
// critical values for "the usual" levels would be exercised here and nowhere else).
func TestMeanCIGrid(t *testing.T) {
	if ev.Replaying() {
		return
	}
	ev.Rule(rule)
	for n := 2; n <= 40; n++ {
		xs := make([]float64, n)
		for i := range xs {
			xs[i] = 10 + float64((i*7)%n) + 0.25*float64(i%3)
		}
		for _, c := range []float64{0.5, 0.8, 0.9, 0.95, 0.975, 0.98, 0.99, 0.995, 0.999, 0.05, 0.1} {
			checkMeanCI.Run(t, &CICase{Xs: xs, C: c})
		}
		// and a fine grid of levels: an approximation to the t quantile (a series in 1/DoF, a
		// starting value trusted too far) is off in bands of the level that are a fraction of a
		// percent wide at one small sample size - random levels find those only in the long run
		for k := 1; k < 512; k++ {
			if ev.MyShare(n*512 + k) {
				checkMeanCI.RunEnum(t, &CICase{Xs: xs, C: float64(k) / 512})
			}
		}
	}
	ev.Exhaustive("MeanCI at every sample size 2..40 for the confidence levels k/512, k = 1..511")
}

func TestMeanCI(t *testing.T) {
	ev.Rule(rule)
	ev.Rapid(t, "c04-meanci", 8000, 100000, func(rt *rapid.T) {
		n := rapid.IntRange(0, 40).Draw(rt, "n")
		c := &CICase{Xs: drawData(rt, n, "xs")}
		switch rapid.IntRange(0, 5).Draw(rt, "cKind") {
		case 0:
			c.C = rapid.SampledFrom([]float64{0, 1, -0.5, 1.5, 1 - 1e-15, 1e-15, 0.5, 0.95, 0.99}).Draw(rt, "c")
		case 1:
			c.C = gen.LogUniform(rt, 1e-12, 0.5, "ctiny")
		case 2:
			c.C = 1 - gen.LogUniform(rt, 1e-12, 0.5, "cnear1")
		default:
			c.C = rapid.Float64Range(0, 1).Draw(rt, "c")
		}
		if rapid.IntRange(0, 19).Draw(rt, "const") == 0 {
			for i := range c.Xs {
				c.Xs[i] = c.Xs[0]
			}
		}
		checkMeanCI.Run(rt, c)
	})
}
