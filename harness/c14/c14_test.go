// Package c14 decides property C14: histograms conserve samples, bin them by
// their stated edges, and rank correctly.
package c14

import (
	"fmt"
	"math"
	"math/big"
	"sort"
	"testing"

	"github.com/aclements/go-moremath/stats"
	"pgregory.net/rapid"

	"verifharness/internal/ev"
	"verifharness/internal/gen"
	"verifharness/internal/ref"
)

func TestMain(m *testing.M) { ev.Main(m, "C14") }

func TestReplay(t *testing.T) { ev.Replay(t) }

type Case struct {
	Kind  string    `json:"kind"` // linear, log
	Min   float64   `json:"min,omitempty"`
	Max   float64   `json:"max"`
	NBins int       `json:"nbins,omitempty"`
	B     int       `json:"b,omitempty"`
	M     float64   `json:"m,omitempty"`
	Xs    []ev.F    `json:"xs"`
	Qs    []float64 `json:"qs"`
}

// edgeSlack is the "rounding distance" of an edge in bin widths for a value x at bin
// coordinate t: a few roundings of t itself, plus (linear) the cancellation a computation of
// the form x*delta - min*delta would suffer, plus (log) the rounding of the logarithm.
func (c *Case) edgeSlack(x, t float64) float64 {
	if math.IsInf(t, 0) {
		return 0
	}
	if c.Kind == "linear" {
		w := (c.Max - c.Min) / float64(c.NBins)
		return 8 * ref.Eps * (math.Abs(t) + 1 + (math.Abs(x)+math.Abs(c.Min)+math.Abs(c.Max))/w)
	}
	return 8 * ref.Eps * (math.Abs(t) + 1 + c.M)
}

// idealIndex returns the real-valued bin coordinate of x in 400-bit arithmetic.
func (c *Case) idealIndex(x float64) *big.Float {
	if c.Kind == "linear" {
		return ref.Quo(ref.Mul(ref.Sub(ref.B(x), ref.B(c.Min)), ref.BI(c.NBins)), ref.Sub(ref.B(c.Max), ref.B(c.Min)))
	}
	// m * ln x / ln b
	return ref.Quo(ref.Mul(ref.B(c.M), ref.Ln(ref.B(x))), ref.Ln(ref.BI(c.B)))
}

// edge returns the value of bin coordinate t by the stated rule (linear /
// geometric interpolation), in 400-bit arithmetic.
func (c *Case) edge(t float64) float64 {
	if c.Kind == "linear" {
		w := ref.Quo(ref.Sub(ref.B(c.Max), ref.B(c.Min)), ref.BI(c.NBins))
		return ref.F64(ref.Add(ref.B(c.Min), ref.Mul(ref.B(t), w)))
	}
	return ref.F64(ref.Pow(ref.BI(c.B), ref.Quo(ref.B(t), ref.B(c.M))))
}

func (c *Case) build() (stats.Histogram, int, string) {
	switch c.Kind {
	case "linear":
		if c.NBins < 1 || !(c.Min < c.Max) {
			return nil, 0, "linear shape"
		}
		return stats.NewLinearHist(c.Min, c.Max, c.NBins), c.NBins, ""
	case "log":
		if c.B < 2 || !(c.M >= 1) || !(c.Max > 1) {
			return nil, 0, "log shape"
		}
		h := stats.NewLogHist(c.B, c.M, c.Max)
		_, bins, _ := h.Counts()
		return h, len(bins), ""
	}
	return nil, 0, "kind"
}

var checkHist = ev.Register("histogram", func(c *Case) ev.Outcome {
	h, nb, msg := c.build()
	if h == nil {
		return ev.Fail("harness error: %s", msg)
	}
	if nb < 1 {
		return ev.Fail("harness error: no bins")
	}
	if c.Kind == "log" {
		// number of bins: integral values of m*log_b(x) up to x = max
		t := ref.F64(c.idealIndex(c.Max))
		want := int(math.Ceil(t))
		if math.Abs(t-math.Round(t)) > 1e-9 && nb != want {
			return ev.Fail("NewLogHist(%d,%v,%v) has %d bins, want ceil(m*log_b(max)) = %d", c.B, c.M, c.Max, nb, want)
		}
	}
	// BinToValue: increasing; integer points are the edges; fractional points interpolate
	width := func(i int) float64 { return c.edge(float64(i+1)) - c.edge(float64(i)) }
	prevEdge := math.Inf(-1)
	for i := 0; i <= nb; i++ {
		got, want := h.BinToValue(float64(i)), c.edge(float64(i))
		tol := 1e-12 * (math.Abs(want) + math.Abs(c.Min) + math.Abs(c.Max))
		if !(math.Abs(got-want) <= tol) {
			return ev.Fail("BinToValue(%d) = %.17g, stated edge %.17g", i, got, want)
		}
		if !(got > prevEdge) {
			return ev.Fail("BinToValue not increasing at %d: %v after %v", i, got, prevEdge)
		}
		prevEdge = got
		if i < nb {
			for _, f := range []float64{0.25, 0.5, 0.9} {
				g, w := h.BinToValue(float64(i)+f), c.edge(float64(i)+f)
				if !(math.Abs(g-w) <= tol+1e-12*math.Abs(w)) {
					return ev.Fail("BinToValue(%v) = %.17g, interpolated edge %.17g", float64(i)+f, g, w)
				}
			}
		}
	}
	// Adds against the model
	under, over := uint(0), uint(0)
	bins := make([]uint, nb)
	classes := map[string]bool{}
	justBelow := false
	for step, xf := range c.Xs {
		x := float64(xf)
		if c.Kind == "log" && !(x > 0) {
			return ev.Fail("harness error: log histogram takes positive values only")
		}
		var tf float64
		if math.IsInf(x, 0) {
			tf = x // infinitely far above (below) the range
		} else {
			tf = ref.F64(c.idealIndex(x))
		}
		fl := math.Floor(tf)
		edgeSlack := c.edgeSlack(x, tf)
		// acceptable bin coordinates (-1 = under, nb = over)
		accept := map[int]bool{}
		clamp := func(i float64) int {
			if i < 0 {
				return -1
			}
			if i >= float64(nb) {
				return nb
			}
			return int(i)
		}
		accept[clamp(fl)] = true
		if tf-fl < edgeSlack {
			accept[clamp(fl-1)] = true
			classes["near-edge"] = true
		}
		if fl+1-tf < edgeSlack {
			accept[clamp(fl+1)] = true
			classes["near-edge"] = true
		}
		if tf > -1 && tf < -edgeSlack {
			justBelow = true
			classes["within-one-width-below-first-edge"] = true
		}
		h.Add(x)
		u2, b2, o2 := h.Counts()
		if len(b2) != nb {
			return ev.Fail("step %d: number of bins changed to %d", step, len(b2))
		}
		moved, where := 0, -2
		if u2 != under {
			moved += int(u2 - under)
			where = -1
		}
		if o2 != over {
			moved += int(o2 - over)
			where = nb
		}
		for i := range bins {
			if b2[i] != bins[i] {
				moved += int(b2[i] - bins[i])
				where = i
			}
		}
		if moved != 1 {
			return ev.Fail("step %d: Add(%v) changed the counters by %d in total (under %d->%d, over %d->%d)", step, x, moved, under, u2, over, o2)
		}
		if !accept[where] {
			name := func(i int) string {
				switch {
				case i == -1:
					return "under"
				case i == nb:
					return "over"
				}
				return fmt.Sprintf("bin %d", i)
			}
			var acc []string
			for i := range accept {
				acc = append(acc, name(i))
			}
			sort.Strings(acc)
			return ev.Fail("step %d: Add(%v) counted in %s; by the stated edges (bin coordinate %.12g) it belongs to %v", step, x, name(where), tf, acc)
		}
		under, over = u2, o2
		copy(bins, b2)
		// queries interleaved with the Adds (read-only: they must leave nothing behind that a
		// later Add does not account for - the quantiles after the last Add are checked below)
		stats.HistogramQuantile(h, 0.5)
		if step%3 == 0 {
			stats.HistogramIQR(h)
			stats.HistogramQuantile(h, 0)
			stats.HistogramQuantile(h, 1)
		}
		u3, b3, o3 := h.Counts()
		if u3 != under || o3 != over || fmt.Sprint(b3) != fmt.Sprint(bins) {
			return ev.Fail("step %d: a quantile query changed the counts", step)
		}
		// what a caller does with the returned slice (append a total to it, say) is its own
		// business: it must not reach the histogram's other counters
		_ = append(b3, 987654321)
		if len(b3) > 0 {
			_ = append(b3[:len(b3)-1], b3[len(b3)-1])
		}
		if u4, b4, o4 := h.Counts(); u4 != under || o4 != over || fmt.Sprint(b4) != fmt.Sprint(bins) {
			return ev.Fail("step %d: appending to the slice returned by Counts changed the counters: under %d -> %d, over %d -> %d, bins %v -> %v", step, under, u4, over, o4, bins, b4)
		}
	}
	total := under + over
	nonEmpty := 0
	for _, b := range bins {
		total += b
		if b > 0 {
			nonEmpty++
		}
	}
	if int(total) != len(c.Xs) {
		return ev.Fail("counters sum to %d after %d Adds", total, len(c.Xs))
	}
	// quantiles
	qs := append([]float64(nil), c.Qs...)
	sort.Float64s(qs)
	prevQ := math.Inf(-1)
	rankInside := false
	for _, q := range qs {
		got := stats.HistogramQuantile(h, q)
		exactRank := ref.Mul(ref.BI(int(total)), ref.B(q))
		gf := ref.F64(exactRank)
		g := math.Floor(gf)
		if r := math.Round(gf); gf != r && math.Abs(gf-r) <= 4*ref.Eps*math.Max(1, r) {
			// q*total is within a few ulp of an integer: the float64 product may round onto it, so
			// either rank may be used. (Anything further away is decided by floor.)
			continue
		}
		if g <= float64(under) || g > float64(total-over) {
			if !math.IsNaN(got) {
				return ev.Fail("HistogramQuantile(%v) = %v, but sample number floor(q*total) = %v is not in the binned range (under %d, over %d, total %d)", q, got, g, under, over, total)
			}
			continue
		}
		rank := uint(g) - under // 1-based rank within the bins
		bin, r, cnt := -1, uint(0), uint(0)
		cum := uint(0)
		for i, b := range bins {
			if rank <= cum+b {
				bin, r, cnt = i, rank-cum, b
				break
			}
			cum += b
		}
		if bin < 0 {
			return ev.Fail("harness error: rank not found")
		}
		lo, hi := c.edge(float64(bin)+float64(r-1)/float64(cnt)), c.edge(float64(bin)+float64(r)/float64(cnt))
		slack := 1e-9*width(bin) + 1e-12*(math.Abs(lo)+math.Abs(hi))
		if math.IsNaN(got) || got < lo-slack || got > hi+slack {
			return ev.Fail("HistogramQuantile(%v) = %v; sample number %v is rank %d of %d in bin %d, so the value must lie in [%v,%v]", q, got, g, r, cnt, bin, lo, hi)
		}
		if got < prevQ-slack {
			return ev.Fail("HistogramQuantile decreases: %v at q=%v after %v", got, q, prevQ)
		}
		if got > prevQ {
			prevQ = got
		}
		rankInside = true
		if under > 0 {
			classes["quantile-with-underflow"] = true
		}
		if r == cnt {
			classes["quantile-rank-fills-bin"] = true
		}
	}
	a, b := stats.HistogramQuantile(h, 0.75), stats.HistogramQuantile(h, 0.25)
	if iqr := stats.HistogramIQR(h); !(iqr == a-b || (math.IsNaN(iqr) && math.IsNaN(a-b))) {
		return ev.Fail("HistogramIQR = %v, Q(0.75)-Q(0.25) = %v", iqr, a-b)
	}
	cl := []string{c.Kind}
	for _, k := range []string{"near-edge", "within-one-width-below-first-edge", "quantile-with-underflow", "quantile-rank-fills-bin"} {
		if classes[k] {
			cl = append(cl, k)
		}
	}
	nt := nonEmpty >= 2 && (justBelow || (under > 0 && rankInside))
	return ev.OK(nt, cl...)
})

const rule = "LinearHist (1..50 bins, any min<max incl. negative, huge and tiny ranges) and LogHist (b 2..10, m 1..4, max in (1,1e12]) with " +
	"rapid-generated sequences of up to 500 values: inside, exactly on edges, one ulp either side of an edge, within one bin " +
	"width below the first edge, far below and far above (log: positive only); q in [0,1] incl. 0, 1 and k/total. Model: counters " +
	"predicted from the stated edges with the bin coordinate computed in 400-bit arithmetic (either side accepted within 1e-9 " +
	"bin widths of an edge): after every Add exactly one counter moved by one and it is an acceptable one; counters sum to the " +
	"number of Adds; BinToValue increasing, equal to the edges at integers and linear/geometric in between; HistogramQuantile " +
	"inside the rank's sub-interval of its bin, NaN when the rank is in the under/overflow, non-decreasing; IQR identity. " +
	"Non-trivial: >=2 non-empty bins and (a value within one width below the first edge, or under>0 with a rank inside the bins)."

func drawCase(t *rapid.T) *Case {
	c := &Case{}
	var edge func(float64) float64
	var nb int
	if rapid.IntRange(0, 2).Draw(t, "isLog") == 0 {
		c.Kind = "log"
		c.B = rapid.IntRange(2, 10).Draw(t, "b")
		c.M = float64(rapid.IntRange(1, 4).Draw(t, "m"))
		c.Max = gen.LogUniform(t, 1.5, 1e12, "max")
		if rapid.Bool().Draw(t, "maxOnEdge") {
			c.Max = math.Pow(float64(c.B), float64(rapid.IntRange(1, 12).Draw(t, "pow")))
		}
		edge = func(x float64) float64 { return math.Pow(float64(c.B), x/c.M) }
		nb = int(math.Ceil(c.M * math.Log(c.Max) / math.Log(float64(c.B))))
		if nb < 1 {
			nb = 1
		}
	} else {
		c.Kind = "linear"
		c.NBins = rapid.IntRange(1, 50).Draw(t, "nbins")
		switch rapid.IntRange(0, 3).Draw(t, "rangeKind") {
		case 0:
			c.Min, c.Max = 0, float64(rapid.IntRange(1, 100).Draw(t, "imax"))
		case 1:
			c.Min = rapid.Float64Range(-100, 100).Draw(t, "min")
			c.Max = c.Min + gen.LogUniform(t, 1e-3, 1e3, "width")
		case 2:
			c.Min = -gen.LogUniform(t, 1, 1e9, "bigmin")
			c.Max = gen.LogUniform(t, 1, 1e9, "bigmax")
		default:
			c.Min = rapid.Float64Range(-1, 1).Draw(t, "tmin")
			c.Max = c.Min + gen.LogUniform(t, 1e-6, 1e-3, "tinywidth")
		}
		edge = func(x float64) float64 { return c.Min + x*(c.Max-c.Min)/float64(c.NBins) }
		nb = c.NBins
	}
	n := rapid.IntRange(0, 60).Draw(t, "n")
	if rapid.IntRange(0, 9).Draw(t, "long") == 0 {
		n = rapid.IntRange(60, 500).Draw(t, "nlong")
	}
	for i := 0; i < n; i++ {
		var tt float64 // bin coordinate
		switch rapid.IntRange(0, 7).Draw(t, "xkind") {
		case 0, 1:
			tt = rapid.Float64Range(0, float64(nb)).Draw(t, "inside")
		case 2:
			tt = float64(rapid.IntRange(0, nb).Draw(t, "onEdge"))
		case 3:
			tt = -rapid.Float64Range(1e-6, 1).Draw(t, "justBelow")
		case 4:
			tt = -rapid.Float64Range(1, 50).Draw(t, "below")
		case 5:
			tt = float64(nb) + rapid.Float64Range(0, 50).Draw(t, "above")
		case 6:
			tt = float64(rapid.IntRange(0, nb).Draw(t, "nearEdge"))
			if rapid.Bool().Draw(t, "offEdge") {
				// a little off an edge, but far beyond its rounding distance
				tt += gen.Sign(t, "offSign") * gen.LogUniform(t, 1e-13, 1e-3, "offEdgeBy")
			}
		default:
			tt = float64(rapid.IntRange(0, maxInt(0, nb-1)).Draw(t, "bin")) + 0.5
		}
		x := edge(tt)
		if rapid.IntRange(0, 15).Draw(t, "far") == 0 {
			// far outside the range: beyond 2^31, 2^63 bin widths and the float range
			x = rapid.SampledFrom([]float64{1e19, 3e9, 1e100, 1e300, math.MaxFloat64, math.Inf(1), -3e9, -1e19, -1e300, -math.MaxFloat64, math.Inf(-1)}).Draw(t, "farValue")
			if c.Kind == "linear" && !math.IsInf(x, 0) && math.Abs(x) < 1e100 {
				x = c.Min + x*(c.Max-c.Min)/float64(nb)
			}
		}
		if c.Kind == "log" && !(x > 0) {
			x = 1e-300
		}
		if rapid.IntRange(0, 7).Draw(t, "ulp") == 0 {
			if rapid.Bool().Draw(t, "up") {
				x = math.Nextafter(x, math.Inf(1))
			} else if !(c.Kind == "log" && x <= 1e-300) {
				x = math.Nextafter(x, math.Inf(-1))
			}
		}
		c.Xs = append(c.Xs, ev.F(x))
	}
	nq := rapid.IntRange(1, 8).Draw(t, "nq")
	for i := 0; i < nq; i++ {
		switch rapid.IntRange(0, 3).Draw(t, "qkind") {
		case 0:
			c.Qs = append(c.Qs, rapid.SampledFrom([]float64{0, 1, 0.5, 0.25, 0.75}).Draw(t, "qspecial"))
		case 1:
			if n > 0 {
				c.Qs = append(c.Qs, float64(rapid.IntRange(0, n).Draw(t, "k"))/float64(n))
			} else {
				c.Qs = append(c.Qs, 0.5)
			}
		default:
			c.Qs = append(c.Qs, rapid.Float64Range(0, 1).Draw(t, "q"))
		}
		if n > 0 && rapid.IntRange(0, 3).Draw(t, "justBelowRank") == 0 {
			// just below a rank boundary k/total: floor must still give k-1
			k := float64(rapid.IntRange(1, n).Draw(t, "kb"))
			c.Qs[len(c.Qs)-1] = rapid.SampledFrom([]float64{(k - 1e-10) / float64(n), (k - 1e-12) / float64(n), (k - 1e-7) / float64(n), float64(rapid.IntRange(1, 99).Draw(t, "pct")) / 100}).Draw(t, "qb")
		}
	}
	return c
}

func maxInt(a, b int) int {
	if a > b {
		return a
	}
	return b
}

func TestHistograms(t *testing.T) {
	ev.Rule(rule)
	ev.Rapid(t, "c14-hist", 2500, 200000, func(rt *rapid.T) {
		checkHist.Run(rt, drawCase(rt))
	})
}

// FuzzHist is the native coverage-guided front end (thorough tier).
func FuzzHist(f *testing.F) {
	f.Add(make([]byte, 128))
	f.Add([]byte("histogram seed \x01\x02\x03\x04\x05\x06\x07\x08\x09\x10\x20\x30\x40\x50\x60\x70\x80\x90\xa0\xb0\xc0\xd0\xe0\xf0\xff"))
	f.Fuzz(rapid.MakeFuzz(func(rt *rapid.T) {
		checkHist.Run(rt, drawCase(rt))
	}))
}
