// Package c10 decides property C10: Sample.Quantile is the Hyndman-Fan type 8
// quantile, monotone and bounded.
package c10

import (
	"math"
	"math/big"
	"sort"
	"testing"

	"github.com/aclements/go-moremath/stats"
	"pgregory.net/rapid"

	"verifharness/internal/ev"
	"verifharness/internal/gen"
	"verifharness/internal/ref"
)

func TestMain(m *testing.M) { ev.Main(m, "C10") }

func TestReplay(t *testing.T) { ev.Replay(t) }

type Case struct {
	Xs   []float64 `json:"xs"`
	W    []float64 `json:"w,omitempty"`
	Qs   []ev.F    `json:"qs"`
	Perm []int     `json:"perm"`
}

func sameF(a, b float64) bool {
	// numerically identical (0 and -0 are the same number; NaN equals NaN)
	return a == b || (math.IsNaN(a) && math.IsNaN(b))
}

func bitsEq(a, b []float64) bool {
	if len(a) != len(b) || (a == nil) != (b == nil) {
		return false
	}
	for i := range a {
		if math.Float64bits(a[i]) != math.Float64bits(b[i]) {
			return false
		}
	}
	return true
}

func permuteF(xs []float64, p []int) []float64 {
	if xs == nil {
		return nil
	}
	out := make([]float64, len(xs))
	for i, j := range p {
		out[i] = xs[j]
	}
	return out
}

var third = ref.Quo(ref.BI(1), ref.BI(3))

// r8 returns the exact type-8 quantile of ascending xs at q in (0,1), and the
// largest of the gaps between consecutive order statistics around the position.
func r8(xs []float64, q float64) (val, gap float64) {
	n := len(xs)
	h := ref.Add(ref.Mul(ref.Add(ref.BI(n), third), ref.B(q)), third)
	kf, _ := h.Int(nil) // floor for positive h
	k := int(kf.Int64())
	frac := ref.Sub(h, new(big.Float).SetPrec(ref.Prec).SetInt(kf))
	g := func(i int) float64 { // gap between order statistics i and i+1 (1-based)
		if i < 1 || i+1 > n {
			return 0
		}
		return xs[i] - xs[i-1]
	}
	gap = math.Max(g(k-1), math.Max(g(k), g(k+1)))
	switch {
	case k <= 0:
		return xs[0], gap
	case k >= n:
		return xs[n-1], gap
	}
	v := ref.Add(ref.B(xs[k-1]), ref.Mul(frac, ref.Sub(ref.B(xs[k]), ref.B(xs[k-1]))))
	return ref.F64(v), gap
}

func absMax(xs []float64) float64 {
	m := 0.0
	for _, x := range xs {
		if a := math.Abs(x); a > m {
			m = a
		}
	}
	return m
}

var checkQuantile = ev.Register("quantile", func(c *Case) ev.Outcome {
	n := len(c.Xs)
	if len(c.Perm) != n || (c.W != nil && len(c.W) != n) {
		return ev.Fail("harness error: inconsistent case")
	}
	qs := ev.Floats(c.Qs)
	sort.Float64s(qs)
	mk := func(xs, w []float64, sorted bool) (stats.Sample, []float64, []float64) {
		a := append([]float64(nil), xs...)
		var b []float64
		if w != nil {
			b = append([]float64(nil), w...)
		}
		return stats.Sample{Xs: a, Weights: b, Sorted: sorted}, a, b
	}
	if n == 0 {
		s := stats.Sample{}
		for _, q := range qs {
			if v := s.Quantile(q); !math.IsNaN(v) {
				return ev.Fail("Quantile(%v) of an empty sample = %v", q, v)
			}
		}
		return ev.OK(false, "empty")
	}
	// ascending order, weights attached
	idx := make([]int, n)
	for i := range idx {
		idx[i] = i
	}
	sort.SliceStable(idx, func(a, b int) bool { return c.Xs[idx[a]] < c.Xs[idx[b]] })
	asc := permuteF(c.Xs, idx)
	ascW := permuteF(c.W, idx)
	scale := absMax(c.Xs)
	ulp4 := 4 * ref.Ulp(scale)
	minV, maxV := asc[0], asc[n-1]
	var totalW float64
	intWeights := true
	for _, w := range c.W {
		if w != math.Floor(w) {
			intWeights = false
		}
	}
	if c.W != nil {
		minV, maxV = math.NaN(), math.NaN()
		for i, w := range ascW {
			if w < 0 {
				return ev.Fail("harness error: negative weight")
			}
			totalW += w
			if w != 0 {
				if math.IsNaN(minV) {
					minV = asc[i]
				}
				maxV = asc[i]
			}
		}
		if totalW == 0 {
			return ev.Fail("harness error: all weights zero is outside the property")
		}
	}
	given, gx, gw := mk(c.Xs, c.W, false)
	perm, px, pw := mk(permuteF(c.Xs, c.Perm), permuteF(c.W, c.Perm), false)
	sorted, sx, sw := mk(asc, ascW, true)
	sortedUnflagged, ux, uw := mk(asc, ascW, false)
	prev := math.Inf(-1)
	nt := false
	classes := []string{}
	constant := asc[0] == asc[n-1]
	for _, q := range qs {
		v := given.Quantile(q)
		vals := []float64{v}
		for _, other := range []struct {
			name string
			s    stats.Sample
		}{{"permuted", perm}, {"ascending with Sorted", sorted}, {"ascending without Sorted", sortedUnflagged}} {
			o := other.s.Quantile(q)
			// With real weights the cumulative sums are rounded in the order they are met,
			// so different input orders may legitimately land on either side of a target
			// that is within rounding of a cumulative weight; each result is then judged on
			// its own. Unweighted and integer-weighted results must be bit-identical.
			if (c.W == nil || intWeights) && !sameF(o, v) {
				return ev.Fail("Quantile(%v) = %.17g as given but %.17g %s", q, v, o, other.name)
			}
			vals = append(vals, o)
		}
		for _, v := range vals {
			if math.IsNaN(v) {
				return ev.Fail("Quantile(%v) = NaN on a non-empty sample", q)
			}
			if v < minV-ulp4 || v > maxV+ulp4 {
				return ev.Fail("Quantile(%v) = %.17g outside [min,max] = [%v,%v]", q, v, minV, maxV)
			}
			if q <= 0 && v != minV {
				return ev.Fail("Quantile(%v) = %v, want the minimum %v", q, v, minV)
			}
			if q >= 1 && v != maxV {
				return ev.Fail("Quantile(%v) = %v, want the maximum %v", q, v, maxV)
			}
		}
		if v < prev-ulp4 && (c.W == nil || intWeights) {
			return ev.Fail("Quantile decreases: %.17g at q=%v after %.17g", v, q, prev)
		}
		if v > prev {
			prev = v
		}
		if q > 0 && q < 1 {
			if c.W == nil {
				want, gap := r8(asc, q)
				tol := 16*ref.Eps*scale + 16*ref.Eps*float64(n)*gap + 4*math.SmallestNonzeroFloat64 // subnormal data round to the 5e-324 grid
				if !(math.Abs(v-want) <= tol) {
					return ev.Fail("Quantile(%v) = %.17g, type-8 estimate %.17g (n=%d, tol %.3g)", q, v, want, n, tol)
				}
				ev.MaxErr("r8", math.Abs(v-want)/tol)
				// position h = (n+1/3)q+1/3 within 1e-9 of an integer: a break point
				h := (float64(n)+1.0/3)*q + 1.0/3
				if math.Abs(h-math.Round(h)) < 1e-9 {
					classes = append(classes, "break-point")
				}
			} else {
				// first ascending value whose cumulative weight exceeds q*W; values whose
				// cumulative weight is within rounding of the target are acceptable too
				target := q * totalW
				slack := 8 * float64(n) * ref.Eps * totalW
				if intWeights && ref.Mul(ref.B(q), ref.B(totalW)).Cmp(ref.B(target)) == 0 {
					// integer weights and an exactly representable target: every cumulative
					// weight and every comparison is exact, so "exceeds" is decided sharply
					slack = 0
					classes = append(classes, "weighted-exact-target")
				}
				cum := 0.0
				var accept []float64
				for i := 0; i < n; {
					j := i
					groupW := 0.0
					for j < n && asc[j] == asc[i] {
						cum += ascW[j]
						groupW += ascW[j]
						j++
					}
					// only a value that carries weight can be the one "at which" the cumulative weight exceeds the target
					if cum > target-slack && groupW > 0 {
						accept = append(accept, asc[i])
						if cum > target+slack {
							break
						}
					}
					i = j
				}
				for _, v := range vals {
					ok := len(accept) == 0 && v == maxV
					for _, a := range accept {
						if v == a {
							ok = true
						}
					}
					if !ok {
						return ev.Fail("weighted Quantile(%v) = %v, acceptable values %v (total weight %v)", q, v, accept, totalW)
					}
				}
			}
			if n >= 3 && !constant {
				nt = true
			}
		}
	}
	// IQR
	if c.W == nil {
		want := given.Quantile(0.75) - given.Quantile(0.25)
		for _, s := range []stats.Sample{given, perm, sorted, sortedUnflagged} {
			if got := s.IQR(); !sameF(got, want) {
				return ev.Fail("IQR = %.17g, Quantile(0.75)-Quantile(0.25) = %.17g", got, want)
			}
		}
	}
	if c.W != nil {
		// IQR is the difference of the two quartiles for a weighted sample as well (each view
		// against its own quartiles: with real weights the order of summation may move a
		// quartile that sits within rounding of its target)
		for _, s := range []stats.Sample{given, perm, sorted, sortedUnflagged} {
			if got, want := s.IQR(), s.Quantile(0.75)-s.Quantile(0.25); !sameF(got, want) {
				return ev.Fail("weighted IQR = %.17g, Quantile(0.75)-Quantile(0.25) = %.17g", got, want)
			}
		}
	}
	// the same backing array with new contents (a reused read buffer): the result must
	// follow the data, not the address
	if c.W == nil && n >= 2 {
		reuse, rx, _ := mk(c.Xs, nil, false)
		first := reuse.Quantile(0.5)
		_ = first
		mirrored := make([]float64, n)
		for i, x := range c.Xs {
			mirrored[i] = asc[0] + (asc[n-1] - x) // not (min+max)-x: the sum overflows for data in the top binades
		}
		copy(rx, mirrored) // overwrite in place, same length
		ascM := append([]float64(nil), mirrored...)
		sort.Float64s(ascM)
		for _, q := range []float64{0.5, 0.3, 0.9} {
			want, gap := r8(ascM, q)
			tol := 16*ref.Eps*absMax(ascM) + 16*ref.Eps*float64(n)*gap + 4*math.SmallestNonzeroFloat64
			if got := reuse.Quantile(q); !(math.Abs(got-want) <= tol) {
				return ev.Fail("after the sample's values were overwritten in place, Quantile(%v) = %.17g; type-8 estimate of the new data %.17g", q, got, want)
			}
		}
		classes = append(classes, "buffer-reused")
	}
	// nothing was modified
	if !bitsEq(gx, c.Xs) || !bitsEq(gw, c.W) || !bitsEq(px, permuteF(c.Xs, c.Perm)) || !bitsEq(pw, permuteF(c.W, c.Perm)) ||
		!bitsEq(sx, asc) || !bitsEq(sw, ascW) || !bitsEq(ux, asc) || !bitsEq(uw, ascW) {
		return ev.Fail("Quantile/IQR modified the sample it was called on")
	}
	if c.W != nil {
		classes = append(classes, "weighted")
	} else {
		classes = append(classes, "unweighted")
	}
	return ev.OK(nt, classes...)
})

const rule = "Sample.Quantile/IQR on rapid-generated samples (n 0..200 with repeats, several magnitudes; q in [-0.5,1.5] incl. the " +
	"exact break points q_k=(k-1/3)/(n+1/3) and their ulp neighbours, 0, 1; a permutation; ascending copies with and without " +
	"Sorted; integer or real non-negative weights, never all zero): unweighted value vs the exact R8 estimate in 400-bit " +
	"arithmetic (tolerance 16 eps max|x| + 16 eps n G, G the largest neighbouring gap), monotone in q, within [min,max], ends, " +
	"bit-identical under reordering and the Sorted flag, sample untouched, NaN when empty, IQR identity; weighted: first " +
	"ascending value whose cumulative weight exceeds q*W. Non-trivial: n>=3, 0<q<1, not constant. distinct = canonical JSON. Later additions: nearly sorted second orders; stored killer orders for selection routines and classical adversaries (TestKillerOrders); data in the top binades 9e307..1.7e308 (one sign)."

func TestQuantile(t *testing.T) {
	ev.Rule(rule)
	ev.Rapid(t, "c10-quantile", 30000, 320000, func(rt *rapid.T) {
		n := rapid.IntRange(0, 200).Draw(rt, "n")
		if rapid.IntRange(0, 2).Draw(rt, "small") == 0 {
			n = rapid.IntRange(0, 8).Draw(rt, "nsmall")
		}
		c := &Case{}
		levels := rapid.IntRange(1, 2*n+1).Draw(rt, "levels")
		vals := gen.Increasing(rt, levels, rapid.SampledFrom([]int{0, 1, 5, 2, 3, 4}).Draw(rt, "valStyle"), "vals")
		c.Xs = make([]float64, n)
		for i := range c.Xs {
			c.Xs[i] = vals[rapid.IntRange(0, levels-1).Draw(rt, "lvl")]
		}
		if n > 0 && rapid.IntRange(0, 2).Draw(rt, "weighted") == 0 {
			c.W = make([]float64, n)
			realW := rapid.Bool().Draw(rt, "realW")
			any := false
			for i := range c.W {
				if realW {
					c.W[i] = rapid.Float64Range(0, 5).Draw(rt, "w")
				} else {
					c.W[i] = float64(rapid.IntRange(0, 4).Draw(rt, "wi"))
				}
				if c.W[i] > 0 {
					any = true
				}
			}
			if rapid.IntRange(0, 3).Draw(rt, "zeroAtMax") == 0 && n >= 2 {
				// the largest value carries no weight (it must then never be returned)
				mi := 0
				for i := range c.Xs {
					if c.Xs[i] > c.Xs[mi] {
						mi = i
					}
				}
				for i := range c.Xs {
					if c.Xs[i] == c.Xs[mi] {
						c.W[i] = 0
					}
				}
				any = false
				for _, w := range c.W {
					if w > 0 {
						any = true
					}
				}
			}
			if !any {
				c.W[rapid.IntRange(0, n-1).Draw(rt, "wfix")] = 1
			}
			if rapid.IntRange(0, 3).Draw(rt, "dominant") == 0 {
				// one observation outweighs all the others together (several quantiles, both
				// quartiles among them, then fall on the same value)
				tw := 0.0
				for _, w := range c.W {
					tw += w
				}
				c.W[rapid.IntRange(0, n-1).Draw(rt, "dominantAt")] = math.Ceil(tw) * float64(rapid.IntRange(1, 6).Draw(rt, "dominantBy"))
			}
		}
		c.Perm = gen.Perm(rt, n, "perm")
		if rapid.IntRange(0, 2).Draw(rt, "nearlySorted") == 0 {
			// the second order is the ascending one disturbed the way real data are (a sorted bulk
			// with a few late values appended, two sorted runs, a rotation, ...)
			idx := make([]int, n)
			for i := range idx {
				idx[i] = i
			}
			sort.SliceStable(idx, func(a, b int) bool { return c.Xs[idx[a]] < c.Xs[idx[b]] })
			for i, j := range gen.NearlySortedPerm(rt, n, "nearly") {
				c.Perm[i] = idx[j]
			}
		}
		nq := rapid.IntRange(1, 12).Draw(rt, "nq")
		for i := 0; i < nq; i++ {
			var q float64
			qk := rapid.IntRange(0, 5).Draw(rt, "qkind")
			if c.W != nil && rapid.IntRange(0, 5).Draw(rt, "qNearOne") == 0 {
				c.Qs = append(c.Qs, ev.F(math.Nextafter(1, 0))) // the cumulative weights then reach the target only up to rounding
				continue
			}
			if c.W != nil && qk <= 2 && rapid.Bool().Draw(rt, "qOnCum") {
				// a level that is exactly a cumulative weight fraction j/W
				tw := 0.0
				for _, w := range c.W {
					tw += w
				}
				j := rapid.IntRange(0, int(tw)).Draw(rt, "j")
				c.Qs = append(c.Qs, ev.F(float64(j)/tw))
				continue
			}
			switch qk {
			case 0:
				q = rapid.SampledFrom([]float64{0, 1, 0.25, 0.5, 0.75, -0.5, 1.5, 1e-300, 1 - 1e-16}).Draw(rt, "qspecial")
			case 1, 2:
				// break point h = k: q = (k - 1/3)/(n + 1/3), and neighbours
				k := rapid.IntRange(0, n+1).Draw(rt, "k")
				q = (float64(k) - 1.0/3) / (float64(n) + 1.0/3)
				switch rapid.IntRange(0, 2).Draw(rt, "nudge") {
				case 1:
					q = math.Nextafter(q, 2)
				case 2:
					q = math.Nextafter(q, -2)
				}
			case 3:
				q = rapid.Float64Range(-0.5, 1.5).Draw(rt, "qwide")
			default:
				q = rapid.Float64Range(0, 1).Draw(rt, "q")
			}
			c.Qs = append(c.Qs, ev.F(q))
		}
		checkQuantile.Run(rt, c)
	})
}

// FuzzQuantile is the native coverage-guided front end (thorough tier). Orderings matter to
// a selection or sorting algorithm in ways no value distribution reaches (bad pivots, fallback
// paths taken only after several unbalanced partitions); the fuzzer's bucketed edge counters
// give it a gradient toward such orderings. The data are a sequence of small integers (ties
// included) in the order the bytes dictate; the oracle is the same type-8 definition.
func FuzzQuantile(f *testing.F) {
	f.Add(make([]byte, 128))
	seq := make([]byte, 200)
	for i := range seq {
		seq[i] = byte(i * 37)
	}
	f.Add(seq)
	f.Fuzz(rapid.MakeFuzz(func(rt *rapid.T) {
		n := rapid.IntRange(1, 96).Draw(rt, "n")
		c := &Case{Xs: make([]float64, n)}
		for i := range c.Xs {
			c.Xs[i] = float64(rapid.IntRange(0, 127).Draw(rt, "x"))
		}
		c.Perm = make([]int, n)
		for i := range c.Perm {
			c.Perm[i] = n - 1 - i
		}
		for _, q := range []float64{0.5, 0.25, 0.75, 0.1, 0.9} {
			c.Qs = append(c.Qs, ev.F(q))
		}
		c.Qs = append(c.Qs, ev.F(rapid.Float64Range(0, 1).Draw(rt, "q")))
		checkQuantile.Run(rt, c)
	}))
}

// ---------------------------------------------------------------- adversarial orders
//
// Replacing the sort inside Quantile by a selection routine is the obvious improvement (the
// source carries a TODO for it), and the defects seeded into such routines sit in fall-back
// branches that only an order built against the routine's pivot rule reaches. Random orders do
// not get there. What can be done generically is (1) to keep the killer orders that have been
// seen (as rank patterns: any strictly increasing relabelling of the values takes the same
// path) and (2) to generate the classical adversarial families for median-of-three pivots.

var killerPatterns = [][]int{
	// found by the author of seeded change V10 (interior median-of-three)
	{20, 25, 21, 18, 22, 14, 23, 15, 24, 17, 0, 2, 13, 4, 6, 16, 8, 10, 19, 1, 3, 5, 7, 9, 11, 26, 27, 28, 29, 30, 31, 32, 33, 34, 35, 36, 37, 38, 39, 12},
	// Y10 (pivot from the 1/4, 1/2, 3/4 positions)
	{46, 62, 45, 61, 44, 59, 43, 58, 42, 56, 41, 55, 40, 53, 64, 63, 1, 3, 60, 5, 7, 57, 9, 11, 54, 13, 52, 51, 50, 49, 48, 47, 2, 4, 6, 8, 10, 12, 14, 39, 38, 37, 36, 35, 34, 33, 32, 31, 30, 29, 28, 27, 26, 25, 24, 23, 22, 21, 20, 19, 18, 17, 16, 15},
	// Z10 (median-of-three with a cap on the number of rounds)
	{19, 6, 4, 16, 15, 10, 9, 24, 1, 2, 23, 22, 12, 14, 8, 13, 7, 3, 17, 20, 11, 18, 5, 21},
}

// musser is the median-of-three killer sequence (Musser 1997) for first/middle/last pivots:
// 1, k+1, 3, k+3, ..., 2k-1 interleaved, then 2, 4, ..., 2k.
func musser(n int) []int {
	k := n / 2
	out := make([]int, 0, 2*k)
	for i := 1; i <= k; i++ {
		if i%2 == 1 {
			out = append(out, i)
		} else {
			out = append(out, k+i-1)
		}
	}
	for i := 1; i <= k; i++ {
		out = append(out, 2*i)
	}
	// make it a permutation of 1..2k: relabel by rank, ties broken by position
	idx := make([]int, len(out))
	for i := range idx {
		idx[i] = i
	}
	sort.SliceStable(idx, func(a, b int) bool { return out[idx[a]] < out[idx[b]] })
	perm := make([]int, len(out))
	for r, i := range idx {
		perm[i] = r + 1
	}
	return perm
}

func TestKillerOrders(t *testing.T) {
	ev.Rule(rule)
	ev.Rapid(t, "c10-killers", 600, 12000, func(rt *rapid.T) {
		var pat []int
		switch rapid.IntRange(0, 5).Draw(rt, "family") {
		case 0, 1:
			pat = killerPatterns[rapid.IntRange(0, len(killerPatterns)-1).Draw(rt, "stored")]
		case 2:
			pat = musser(2 * rapid.IntRange(11, 100).Draw(rt, "musserHalf"))
		case 3: // organ pipe and its inverse
			n := rapid.IntRange(22, 200).Draw(rt, "n")
			for i := 0; i < n; i++ {
				if i < n/2 {
					pat = append(pat, 2*i)
				} else {
					pat = append(pat, 2*(n-1-i)+1)
				}
			}
		case 4: // two interleaved runs (evens ascending, odds descending)
			n := rapid.IntRange(22, 200).Draw(rt, "n")
			for i := 0; i < n; i++ {
				if i%2 == 0 {
					pat = append(pat, i)
				} else {
					pat = append(pat, 2*n-i)
				}
			}
		default: // a stored killer with a few random transpositions (a near miss of its rule)
			pat = append([]int(nil), killerPatterns[rapid.IntRange(0, len(killerPatterns)-1).Draw(rt, "stored")]...)
			for k := rapid.IntRange(1, 3).Draw(rt, "swaps"); k > 0; k-- {
				i, j := rapid.IntRange(0, len(pat)-1).Draw(rt, "i"), rapid.IntRange(0, len(pat)-1).Draw(rt, "j")
				pat[i], pat[j] = pat[j], pat[i]
			}
		}
		n := len(pat)
		// any strictly increasing relabelling takes the same path: ranks -> increasing values
		order := append([]int(nil), pat...)
		sort.Ints(order)
		vals := gen.Increasing(rt, n, rapid.IntRange(0, 1).Draw(rt, "valStyle"), "vals")
		rankOf := map[int]int{}
		for r, v := range order {
			rankOf[v] = r
		}
		c := &Case{Xs: make([]float64, n)}
		mirror := rapid.Bool().Draw(rt, "mirror")
		for i, p := range pat {
			r := rankOf[p]
			if mirror {
				r = n - 1 - r
			}
			c.Xs[i] = vals[r]
		}
		if rapid.Bool().Draw(rt, "reverse") {
			for i, j := 0, n-1; i < j; i, j = i+1, j-1 {
				c.Xs[i], c.Xs[j] = c.Xs[j], c.Xs[i]
			}
		}
		c.Perm = gen.Perm(rt, n, "perm")
		for k := 1; k < n; k += 1 + n/24 { // the break points h = k, across the whole range
			c.Qs = append(c.Qs, ev.F((float64(k)-1.0/3)/(float64(n)+1.0/3)))
		}
		c.Qs = append(c.Qs, 0.5, 0.25, 0.75, ev.F(rapid.Float64Range(0, 1).Draw(rt, "q")))
		checkQuantile.Run(rt, c)
	})
}
