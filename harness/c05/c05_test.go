// Package c05 decides property C05: Normal, Student-t and delta
// distributions are coherent and accurate.
package c05

import (
	"math"
	"math/rand"
	"sort"
	"testing"

	"github.com/aclements/go-moremath/stats"
	"pgregory.net/rapid"

	"verifharness/internal/ev"
	"verifharness/internal/gen"
	"verifharness/internal/ref"
)

func TestMain(m *testing.M) { ev.Main(m, "C05") }

func TestReplay(t *testing.T) { ev.Replay(t) }

// NormCase probes one normal distribution at Mu + Sigma*u for u in Us and
// inverts it at the probabilities Ps.
type NormCase struct {
	Mu    float64   `json:"mu"`
	Sigma float64   `json:"sigma"`
	Us    []float64 `json:"us"`
	Ps    []ev.F    `json:"ps"`
	Seed  int64     `json:"seed"`
}

func nextUp(x float64, n int) float64 {
	for i := 0; i < n; i++ {
		x = math.Nextafter(x, math.Inf(1))
	}
	return x
}

func nextDown(x float64, n int) float64 {
	for i := 0; i < n; i++ {
		x = math.Nextafter(x, math.Inf(-1))
	}
	return x
}

// zExact returns (x-mu)/sigma rounded once from the exact quotient.
func zExact(x, mu, sigma float64) float64 {
	return ref.F64(ref.Quo(ref.Sub(ref.B(x), ref.B(mu)), ref.B(sigma)))
}

var checkNormal = ev.Register("normal", func(c *NormCase) ev.Outcome {
	if !(c.Sigma > 0) {
		return ev.Fail("harness error: sigma")
	}
	d := stats.NormalDist{Mu: c.Mu, Sigma: c.Sigma}
	if d.Mean() != c.Mu || d.Variance() != c.Sigma*c.Sigma {
		return ev.Fail("Mean/Variance = %v,%v", d.Mean(), d.Variance())
	}
	// Bounds: "reasonable bounds ... the total weight outside should be approximately 0": an
	// interval symmetric about Mu that holds at least 99% of the mass (Mu -/+ 3 Sigma holds 99.73%)
	if lo, hi := d.Bounds(); !(lo < c.Mu && c.Mu < hi) || math.IsInf(lo, 0) || math.IsInf(hi, 0) ||
		math.Abs((c.Mu-lo)-(hi-c.Mu)) > 1e-9*(hi-lo) || ref.NormCDFGamma(zExact(hi, c.Mu, c.Sigma))-ref.NormCDFGamma(zExact(lo, c.Mu, c.Sigma)) < 0.99 {
		return ev.Fail("Bounds = %v,%v are not a symmetric interval about Mu=%v holding >= 99%% of the mass (Sigma=%v)", lo, hi, c.Mu, c.Sigma)
	}
	// +-1e300 is forty and more standard deviations out only for Sigma below 1e250
	if d.CDF(math.Inf(-1)) != 0 || d.CDF(math.Inf(1)) != 1 || (c.Sigma < 1e250 && (d.CDF(-1e300) != 0 || d.CDF(1e300) != 1)) {
		return ev.Fail("limits: CDF(-Inf,+Inf,-1e300,1e300) = %v,%v,%v,%v", d.CDF(math.Inf(-1)), d.CDF(math.Inf(1)), d.CDF(-1e300), d.CDF(1e300))
	}
	xs := make([]float64, 0, len(c.Us))
	for _, u := range c.Us {
		xs = append(xs, c.Mu+c.Sigma*u)
	}
	sort.Float64s(xs)
	nt := false
	prev := 0.0
	cdfs := make([]float64, len(xs))
	for i, x := range xs {
		got := d.CDF(x)
		cdfs[i] = got
		z := zExact(x, c.Mu, c.Sigma)
		want := ref.NormCDFGamma(z)
		if !(math.Abs(got-want) <= 1e-9) {
			return ev.Fail("CDF(%v) = %.17g, reference %.17g (z=%v)", x, got, want, z)
		}
		ev.MaxErr("normal-CDF", math.Abs(got-want)/1e-9)
		if !(got >= 0 && got <= 1) {
			return ev.Fail("CDF(%v) = %v outside [0,1]", x, got)
		}
		if got < prev-4*ref.Eps {
			return ev.Fail("CDF decreases: CDF(%v) = %.17g after %.17g", x, got, prev)
		}
		if got > prev {
			prev = got
		}
		if got > 1e-12 && got < 1-1e-12 {
			nt = true
		}
		p := d.PDF(x)
		if !(p >= 0) {
			return ev.Fail("PDF(%v) = %v", x, p)
		}
		wantPDF := math.Exp(-z*z/2) / (c.Sigma * math.Sqrt(2*math.Pi))
		// absolute slack: Exp(-z*z/2) below 1e-300 sits on the subnormal grid (or is 0), and that
		// error is scaled by 1/(Sigma*sqrt(2 pi)) like the value itself
		if !(math.Abs(p-wantPDF) <= 1e-9*wantPDF+math.Max(1e-300, 1e-300/c.Sigma)) {
			return ev.Fail("PDF(%v) = %.17g, formula %.17g", x, p, wantPDF)
		}
		// reflection about the centre
		lo := c.Mu - (x - c.Mu)
		dh := ref.Sub(ref.B(x), ref.B(c.Mu))
		dl := ref.Sub(ref.B(c.Mu), ref.B(lo))
		asym := math.Abs(ref.F64(ref.Sub(dh, dl))) / c.Sigma
		if s := d.CDF(lo) + got; !(math.Abs(s-1) <= 1e-12+0.4*asym) {
			return ev.Fail("reflection: CDF(%v)+CDF(%v) = %.17g", lo, x, s)
		}
	}
	// integral of the PDF between consecutive probes
	for i := 1; i < len(xs); i++ {
		a, b := xs[i-1], xs[i]
		if !(b > a) || (b-a)/c.Sigma > 12 {
			continue
		}
		integ := ref.GaussLegendre(d.PDF, a, b, c.Sigma/2)
		want := cdfs[i] - cdfs[i-1]
		// the quadrature nodes are rounded to the float grid at |x|, i.e. moved by up to
		// ulp/2 = (ulp/2)/Sigma standard units, which changes the density by |pdf'| <= 0.25/Sigma^2
		// times that: over at most 12 Sigma the integral moves by at most 1.5 ulp/Sigma.
		tol := 1e-9 + 4*ref.Ulp(math.Max(math.Abs(a), math.Abs(b)))/c.Sigma
		if !(math.Abs(integ-want) <= tol) {
			return ev.Fail("integral of PDF over [%v,%v] = %.15g, CDF difference %.15g (tol %.3g)", a, b, integ, want, tol)
		}
		ev.MaxErr("normal-integral", math.Abs(integ-want)/tol)
	}
	// quantile function
	inv := d.InvCDF
	// every case also probes the floats adjacent to the ends of [0,1] from outside and inside
	edgePs := []ev.F{ev.F(math.Nextafter(1, 2)), ev.F(1 + 0x1p-51), ev.F(1 + 0x1p-50), ev.F(-5e-324), ev.F(-0x1p-1022),
		ev.F(math.Nextafter(1, 0)), ev.F(5e-324), 0, 1, ev.F(math.Inf(1)), ev.F(math.Inf(-1))}
	for _, pf := range append(append([]ev.F(nil), c.Ps...), edgePs...) {
		p := float64(pf)
		x := inv(p)
		switch {
		case p < 0 || p > 1 || math.IsNaN(p):
			if !math.IsNaN(x) {
				return ev.Fail("InvCDF(%v) = %v, want NaN", p, x)
			}
		case p == 0:
			if !math.IsInf(x, -1) {
				return ev.Fail("InvCDF(0) = %v", x)
			}
		case p == 1:
			if !math.IsInf(x, 1) {
				return ev.Fail("InvCDF(1) = %v", x)
			}
		case p < 1e-300:
			// below the quantifier of the property ("down to 1e-300"): no accuracy claim
			if math.IsNaN(x) {
				return ev.Fail("InvCDF(%v) = NaN", p)
			}
		default:
			if math.IsNaN(x) || math.IsInf(x, 0) {
				return ev.Fail("InvCDF(%v) = %v", p, x)
			}
			// p must lie between the reference CDF two ulps either side of x (with 1e-9 relative)
			lo := ref.NormCDFGamma(zExact(nextDown(x, 2), c.Mu, c.Sigma)) * (1 - 1e-9)
			hi := ref.NormCDFGamma(zExact(nextUp(x, 2), c.Mu, c.Sigma)) * (1 + 1e-9)
			if !(p >= lo && p <= hi) {
				return ev.Fail("InvCDF(%v) = %v: CDF there is in [%.17g, %.17g]", p, x, lo, hi)
			}
			// and through the library's own CDF, as the statement puts it
			back := d.CDF(x)
			blo, bhi := d.CDF(nextDown(x, 2))*(1-1e-9), d.CDF(nextUp(x, 2))*(1+1e-9)
			if !(p >= blo && p <= bhi) {
				return ev.Fail("CDF(InvCDF(%v)) = %.17g", p, back)
			}
			nt = true
		}
	}
	// Rand is a deterministic function of the source, and location-scale consistent: with the
	// same seed, the draws of N(Mu,Sigma) are Mu + Sigma * (draws of N(0,1)) up to rounding.
	// (The distribution itself is checked by the KS test in normal-rand-ks.)
	r1, r2, r3 := rand.New(rand.NewSource(c.Seed)), rand.New(rand.NewSource(c.Seed)), rand.New(rand.NewSource(c.Seed))
	for i := 0; i < 20; i++ {
		a, b, z := d.Rand(r1), d.Rand(r2), stats.StdNormal.Rand(r3)
		if a != b {
			return ev.Fail("Rand is not a deterministic function of the source: draw %d is %v and %v", i, a, b)
		}
		if want := c.Mu + c.Sigma*z; !(math.Abs(a-want) <= 8*ref.Eps*(math.Abs(c.Mu)+c.Sigma*math.Abs(z))) {
			return ev.Fail("Rand draw %d = %v, but Mu + Sigma * (standard normal draw %v from the same source) = %v", i, a, z, want)
		}
	}
	if g, w := stats.Rand(d)(rand.New(rand.NewSource(c.Seed))), d.Rand(rand.New(rand.NewSource(c.Seed))); g != w {
		return ev.Fail("stats.Rand(NormalDist) does not use the Rand method")
	}
	if x := d.Rand(nil); math.IsNaN(x) || math.IsInf(x, 0) {
		return ev.Fail("Rand(nil) = %v", x)
	}
	return ev.OK(nt, "normal")
})

// RandCase: Kolmogorov-Smirnov distance of seeded draws.
type RandCase struct {
	Mu    float64 `json:"mu"`
	Sigma float64 `json:"sigma"`
	Seed  int64   `json:"seed"`
	N     int     `json:"n"`
}

var checkNormalRand = ev.Register("normal-rand-ks", func(c *RandCase) ev.Outcome {
	d := stats.NormalDist{Mu: c.Mu, Sigma: c.Sigma}
	r := rand.New(rand.NewSource(c.Seed))
	xs := make([]float64, c.N)
	for i := range xs {
		xs[i] = d.Rand(r)
	}
	sort.Float64s(xs)
	ks := 0.0
	n := float64(c.N)
	for i, x := range xs {
		f := ref.NormCDF(zExact(x, c.Mu, c.Sigma))
		if a := math.Abs(f - float64(i)/n); a > ks {
			ks = a
		}
		if a := math.Abs(f - float64(i+1)/n); a > ks {
			ks = a
		}
	}
	// DKW: Pr[KS > e] <= 2 exp(-2 n e^2); 1e-9 false-alarm bound
	bound := math.Sqrt(math.Log(2/1e-9) / (2 * n))
	if !(ks <= bound) {
		return ev.Fail("KS distance of %d draws is %v > %v", c.N, ks, bound)
	}
	ev.MaxErr("normal-KS", ks/bound)
	return ev.OK(true, "normal-rand")
})

// TCase probes one t distribution.
type TCase struct {
	V  float64   `json:"v"`
	Xs []float64 `json:"xs"`
}

var checkT = ev.Register("tdist", func(c *TCase) ev.Outcome {
	if !(c.V > 0) {
		return ev.Fail("harness error: V")
	}
	d := stats.TDist{V: c.V}
	accurate := c.V >= 0.1 && c.V <= 1e4
	if d.CDF(math.Inf(-1)) != 0 || d.CDF(math.Inf(1)) != 1 || d.CDF(0) != 0.5 {
		return ev.Fail("CDF(-Inf,0,+Inf) = %v,%v,%v", d.CDF(math.Inf(-1)), d.CDF(0), d.CDF(math.Inf(1)))
	}
	if accurate {
		// tends to 0 and 1: at +-1e300 the tail is below 1e-9 for every V >= 0.1
		if a, b := d.CDF(-1e300), d.CDF(1e300); !(a >= 0 && a <= 1e-9 && b <= 1 && b >= 1-1e-9) {
			return ev.Fail("CDF(-1e300), CDF(1e300) = %v, %v", a, b)
		}
	}
	if lo, hi := d.Bounds(); !(lo < 0 && hi > 0) || math.IsInf(lo, 0) || math.IsInf(hi, 0) {
		return ev.Fail("Bounds = %v,%v", lo, hi)
	}
	xs := append([]float64(nil), c.Xs...)
	sort.Float64s(xs)
	prev := 0.0
	nt := false
	cdfs := make([]float64, len(xs))
	for i, x := range xs {
		got := d.CDF(x)
		cdfs[i] = got
		if !(got >= 0 && got <= 1) {
			return ev.Fail("CDF(%v) = %v outside [0,1]", x, got)
		}
		if accurate {
			want := ref.TCDF(x, c.V)
			if !(math.Abs(got-want) <= 1e-9) {
				return ev.Fail("V=%v: CDF(%v) = %.17g, reference %.17g", c.V, x, got, want)
			}
			ev.MaxErr("t-CDF", math.Abs(got-want)/1e-9)
		}
		// monotone up to the accuracy of the evaluation: about 1e-11 for V <= 1e4; for larger V
		// the statement itself puts the accuracy at about 1e-9 (dips of 2e-12 were measured at
		// V ~ 1.6e5 between abscissae 7e-12 apart)
		monoSlack := 1e-11
		if !accurate {
			monoSlack = 2e-9
		}
		if got < prev-monoSlack {
			return ev.Fail("V=%v: CDF decreases: CDF(%v) = %.17g after %.17g", c.V, x, got, prev)
		}
		ev.MaxErr("t-monotone-dip", (prev-got)/monoSlack)
		if got > prev {
			prev = got
		}
		if s := d.CDF(-x) + got; !(math.Abs(s-1) <= 1e-12) {
			return ev.Fail("V=%v: CDF(%v)+CDF(%v) = %.17g", c.V, -x, x, s)
		}
		if p := d.PDF(x); !(p >= 0) {
			return ev.Fail("V=%v: PDF(%v) = %v", c.V, x, p)
		}
		if got > 1e-12 && got < 1-1e-12 {
			nt = true
		}
	}
	if accurate {
		h := 0.25 * math.Min(1, math.Sqrt(c.V))
		for i := 1; i < len(xs); i++ {
			a, b := xs[i-1], xs[i]
			if !(b > a) || (b-a)/h > 200 {
				continue
			}
			integ := ref.GaussLegendre(d.PDF, a, b, h)
			want := cdfs[i] - cdfs[i-1]
			if !(math.Abs(integ-want) <= 1e-9) {
				return ev.Fail("V=%v: integral of PDF over [%v,%v] = %.15g, CDF difference %.15g", c.V, a, b, integ, want)
			}
			ev.MaxErr("t-integral", math.Abs(integ-want)/1e-9)
		}
	}
	cl := "t"
	if !accurate {
		cl = "t-laws-only"
	}
	return ev.OK(nt, cl)
})

// DeltaCase probes a DeltaDist.
type DeltaCase struct {
	T  float64   `json:"t"`
	Xs []float64 `json:"xs"`
	Ys []ev.F    `json:"ys"`
}

var checkDelta = ev.Register("delta", func(c *DeltaCase) ev.Outcome {
	d := stats.DeltaDist{T: c.T}
	xs := append(append([]float64(nil), c.Xs...), c.T, nextUp(c.T, 1), nextDown(c.T, 1), math.Inf(1), math.Inf(-1))
	for _, x := range xs {
		wantC, wantP := 0.0, 0.0
		if x >= c.T {
			wantC = 1
		}
		if x == c.T {
			wantP = math.Inf(1)
		}
		if d.CDF(x) != wantC || d.PDF(x) != wantP {
			return ev.Fail("T=%v: CDF(%v),PDF(%v) = %v,%v, want %v,%v", c.T, x, x, d.CDF(x), d.PDF(x), wantC, wantP)
		}
	}
	inv := stats.InvCDF(d)
	for _, yf := range append(append([]ev.F(nil), c.Ys...), 0, 1, 0.5) {
		y := float64(yf)
		g1, g2 := d.InvCDF(y), inv(y)
		if y < 0 || y > 1 {
			if !math.IsNaN(g1) || !math.IsNaN(g2) {
				return ev.Fail("InvCDF(%v) = %v / %v, want NaN", y, g1, g2)
			}
		} else if g1 != c.T || g2 != c.T {
			return ev.Fail("InvCDF(%v) = %v / %v, want T=%v", y, g1, g2, c.T)
		}
	}
	lo, hi := d.Bounds()
	if !(lo <= c.T && c.T <= hi) || math.IsInf(lo, 0) || math.IsInf(hi, 0) {
		return ev.Fail("Bounds = %v,%v do not contain T=%v", lo, hi, c.T)
	}
	return ev.OK(len(c.Xs) > 0, "delta")
})

const rule = "NormalDist (Mu in +-1e6, Sigma log-uniform 1e-6..1e6) probed at Mu+Sigma*u, u over +-40 concentrated at 0, +-1 " +
	"and the tails: CDF vs an incomplete-gamma reference (independent of erfc) to 1e-9, range, monotone on the sorted probes, " +
	"limits, reflection, PDF>=0 and formula, 5-point Gauss-Legendre integral of PDF vs CDF differences (1e-9); InvCDF at p " +
	"uniform, log-uniform down to 1e-300, 1-tiny and around the Acklam switch points: p within 1e-9 relative of the CDF in a " +
	"+-2ulp window of the returned x; Mean/Variance/Bounds; Rand bit-for-bit against the source's NormFloat64 stream and KS " +
	"distance of 50000 draws below the DKW 1e-9 bound. TDist (V log-uniform 0.1..1e4, laws only up to 1e6) likewise vs " +
	"gonum mathext's incomplete beta (anchored to closed forms for 1..4 dof). DeltaDist: step, quantile, density, bounds. " +
	"Non-trivial: some probe has 1e-12<CDF<1-1e-12 or 0<p<1. distinct = different canonical JSON. Later additions: TDist on the grid V = k/2 (k <= 2000) and every integral V up to 10000."

func drawU(t *rapid.T, label string) float64 {
	switch rapid.IntRange(0, 7).Draw(t, label+".kind") {
	case 0:
		return gen.Sign(t, label+".s") * gen.LogUniform(t, 1e-12, 1, label+".tiny")
	case 1:
		return gen.Sign(t, label+".s") * (1 + rapid.Float64Range(-0.01, 0.01).Draw(t, label+".near1"))
	case 2:
		return gen.Sign(t, label+".s") * rapid.Float64Range(5, 40).Draw(t, label+".tail")
	case 3:
		return float64(rapid.IntRange(-8, 8).Draw(t, label+".int"))
	default:
		return rapid.Float64Range(-6, 6).Draw(t, label+".u")
	}
}

func drawP(t *rapid.T) float64 {
	switch rapid.IntRange(0, 7).Draw(t, "p.kind") {
	case 0:
		return rapid.SampledFrom([]float64{0, 1, -0.1, 1.1, 0.5, 0.02425, 0.97575, math.NaN(), -1e-300, 1 + 1e-15, 1e-300, 1 - 1e-16}).Draw(t, "p.special")
	case 1:
		return gen.LogUniform(t, 1e-300, 0.5, "p.log")
	case 2:
		return 1 - gen.LogUniform(t, 1e-16, 0.5, "p.near1")
	case 3:
		return 0.02425 + rapid.Float64Range(-1e-3, 1e-3).Draw(t, "p.plow")
	case 4:
		return 0.97575 + rapid.Float64Range(-1e-3, 1e-3).Draw(t, "p.phigh")
	default:
		return rapid.Float64Range(0, 1).Draw(t, "p.u")
	}
}

func drawNormalParams(t *rapid.T) (mu, sigma float64) {
	switch rapid.IntRange(0, 3).Draw(t, "mu.kind") {
	case 0:
		mu = 0
	case 1:
		mu = rapid.Float64Range(-10, 10).Draw(t, "mu")
	default:
		mu = gen.Sign(t, "mu.s") * gen.LogUniform(t, 1, 1e6, "mu.big")
	}
	switch rapid.IntRange(0, 5).Draw(t, "sigma.one") {
	case 0:
		sigma = 1
	case 5:
		// scales whose square is not representable although the density and the standardised
		// argument are (round 11: intermediate overflow / underflow)
		sigma = rapid.SampledFrom([]float64{1e160, 1e-160, 1e155, 1e-155, 1e200, 1e-200, 1e300, 1e-300}).Draw(t, "sigma.extreme")
		if sigma < 1 {
			mu = 0 // x = mu + u*sigma must resolve u
		}
	default:
		sigma = gen.LogUniform(t, 1e-6, 1e6, "sigma")
	}
	return
}

func TestNormal(t *testing.T) {
	ev.Rule(rule)
	ev.Rapid(t, "c05-normal", 12000, 400000, func(rt *rapid.T) {
		c := &NormCase{Seed: int64(rapid.IntRange(1, 1<<30).Draw(rt, "seed"))}
		c.Mu, c.Sigma = drawNormalParams(rt)
		n := rapid.IntRange(1, 10).Draw(rt, "nx")
		for i := 0; i < n; i++ {
			c.Us = append(c.Us, drawU(rt, "u"))
		}
		np := rapid.IntRange(0, 6).Draw(rt, "np")
		for i := 0; i < np; i++ {
			c.Ps = append(c.Ps, ev.F(drawP(rt)))
		}
		checkNormal.Run(rt, c)
	})
}

func TestNormalRand(t *testing.T) {
	ev.Rapid(t, "c05-normal-rand", 40, 640, func(rt *rapid.T) {
		c := &RandCase{Seed: int64(rapid.IntRange(1, 1<<30).Draw(rt, "seed")), N: 50000}
		c.Mu, c.Sigma = drawNormalParams(rt)
		checkNormalRand.Run(rt, c)
	})
}

func TestT(t *testing.T) {
	ev.Rule(rule)
	ev.Rapid(t, "c05-t", 12000, 400000, func(rt *rapid.T) {
		c := &TCase{}
		switch rapid.IntRange(0, 5).Draw(rt, "v.kind") {
		case 0:
			c.V = float64(rapid.IntRange(1, 100).Draw(rt, "v.int"))
		case 1:
			c.V = gen.LogUniform(rt, 1e4, 1e6, "v.big")
		case 2:
			c.V = rapid.SampledFrom([]float64{0.1, 0.5, 1, 2, 1e4}).Draw(rt, "v.special")
		case 3:
			// degrees of freedom where Gamma((V+1)/2) or Gamma(V/2) crosses the float64 overflow
			// threshold (171.62): a normalisation computed with math.Gamma instead of Lgamma breaks here
			c.V = 2*171.6 + rapid.Float64Range(-3, 3).Draw(rt, "v.gammaLimit")
		default:
			c.V = gen.LogUniform(rt, 0.1, 1e4, "v")
		}
		n := rapid.IntRange(1, 10).Draw(rt, "nx")
		scale := 1.0
		if rapid.Bool().Draw(rt, "scaleBySqrtV") {
			scale = math.Sqrt(c.V) // probes around x*x = V, where the evaluation switches form
		}
		for i := 0; i < n; i++ {
			c.Xs = append(c.Xs, scale*drawU(rt, "x"))
		}
		checkT.Run(rt, c)
	})
}

// TestTGrid: every integral and half-integral number of degrees of freedom up to 1000 (the
// values pooled and one-sample tests produce, and the natural keys of a table of normalising
// constants or of a closed form by recurrence), then every integer up to 10000 in steps; a few
// fixed abscissae each, among them sqrt(V) where the evaluation switches form.
func TestTGrid(t *testing.T) {
	if ev.Replaying() {
		return
	}
	ev.Rule(rule)
	var vs []float64
	for k := 1; k <= 2000; k++ {
		vs = append(vs, float64(k)/2)
	}
	step := 7
	if ev.Thorough() {
		step = 1
	}
	for k := 1001; k <= 10000; k += step {
		vs = append(vs, float64(k))
	}
	ev.Parallel(t, len(vs), func(tb ev.TB, i int) {
		if !ev.MyShare(i) {
			return
		}
		v := vs[i]
		checkT.RunEnum(tb, &TCase{V: v, Xs: []float64{-1, 0.3, 2.5, math.Sqrt(v), -0.9 * math.Sqrt(v)}})
	})
	ev.Exhaustive("TDist with V = k/2 for every k <= 2000 and integral V up to 10000 (quick: every 7th above 1000) at five fixed abscissae")
}

func TestDelta(t *testing.T) {
	ev.Rule(rule)
	ev.Rapid(t, "c05-delta", 300, 20000, func(rt *rapid.T) {
		c := &DeltaCase{T: rapid.Float64Range(-1e6, 1e6).Draw(rt, "T")}
		if rapid.Bool().Draw(rt, "special") {
			c.T = rapid.SampledFrom([]float64{0, 1, -1, 1e300, -1e300, 5e-324}).Draw(rt, "Ts")
		}
		c.Xs = rapid.SliceOfN(rapid.Float64Range(-2e6, 2e6), 0, 5).Draw(rt, "xs")
		for _, y := range rapid.SliceOfN(rapid.Float64Range(-0.5, 1.5), 0, 5).Draw(rt, "ys") {
			c.Ys = append(c.Ys, ev.F(y))
		}
		checkDelta.Run(rt, c)
	})
}
