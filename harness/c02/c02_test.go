// Package c02 decides property C02: UDist is the exact null distribution of U
// for every tie vector.
package c02

import (
	"fmt"
	"math"
	"os"
	"sort"
	"testing"

	"github.com/aclements/go-moremath/stats"
	"pgregory.net/rapid"

	"verifharness/internal/ev"
	"verifharness/internal/gen"
	"verifharness/internal/ref"
)

func TestMain(m *testing.M) { ev.Main(m, "C02") }

func TestReplay(t *testing.T) { ev.Replay(t) }

// Case is one distribution and the points it is probed at. Grid means "every
// point of the half-integer grid from -1 to N1*N2+1" (Us is then ignored).
type Case struct {
	N1   int    `json:"n1"`
	N2   int    `json:"n2"`
	T    []int  `json:"t"` // nil = no ties
	Grid bool   `json:"grid"`
	Us   []ev.F `json:"us,omitempty"`
	// Before lists other tie vectors ("siblings" of T: the same digits grouped differently, the
	// same counts in another order, the same sum and length) whose distributions - with the same
	// N1 - are evaluated at the same points first, results ignored: whatever they leave behind
	// (a cache keyed by too little) must not change the answers for T.
	Before [][]int `json:"before,omitempty"`
}

const tol = 1e-10

var checkUDist = ev.Register("udist", func(c *Case) ev.Outcome {
	if c.N1 < 1 || c.N2 < 1 {
		return ev.Fail("harness error: sizes")
	}
	if c.T != nil {
		s := 0
		for _, t := range c.T {
			if t < 1 {
				return ev.Fail("harness error: non-positive tie count")
			}
			s += t
		}
		if s != c.N1+c.N2 || len(c.T) < 2 {
			return ev.Fail("harness error: tie vector")
		}
	}
	for _, b := range c.Before {
		sum := 0
		for _, t := range b {
			if t < 1 {
				return ev.Fail("harness error: sibling tie vector")
			}
			sum += t
		}
		if sum <= c.N1 || len(b) < 2 {
			return ev.Fail("harness error: sibling tie vector")
		}
		sib := stats.UDist{N1: c.N1, N2: sum - c.N1, T: append([]int(nil), b...)}
		for _, uf := range c.Us {
			sib.CDF(float64(uf))
			sib.PMF(float64(uf))
		}
		if c.Grid {
			for w := 0; w <= 2*c.N1*c.N2; w++ {
				sib.CDF(float64(w) / 2)
				sib.PMF(float64(w) / 2)
			}
		}
	}
	var T []int
	if c.T != nil {
		T = append([]int(nil), c.T...)
	}
	d := stats.UDist{N1: c.N1, N2: c.N2, T: T}
	mirror := stats.UDist{N1: c.N2, N2: c.N1, T: T}
	u := ref.UExact(c.N1, c.N2, c.T)
	nn := c.N1 * c.N2

	lo, hi := d.Bounds()
	if lo != 0 || hi != float64(nn) {
		return ev.Fail("Bounds = (%v,%v), want (0,%d)", lo, hi, nn)
	}
	if d.Step() != 0.5 {
		return ev.Fail("Step = %v, want 0.5", d.Step())
	}

	var us []float64
	if c.Grid {
		for w := -2; w <= 2*nn+2; w++ {
			us = append(us, float64(w)/2)
		}
	} else {
		us = ev.Floats(c.Us)
		sort.Float64s(us)
	}
	hasTies := false
	for _, t := range c.T {
		if t > 1 {
			hasTies = true
		}
	}
	nt := false
	prev := math.Inf(-1)
	sumPMF := 0.0
	for _, x := range us {
		// reference: mass at attainable points <= x
		var want float64
		w := int(math.Floor(2 * x)) // largest grid index with point <= x
		switch {
		case x < 0:
			want = 0
		case 2*x >= float64(2*nn):
			want = 1
		default:
			want = u.PLE(w)
		}
		got := d.CDF(x)
		if !(math.Abs(got-want) <= tol) {
			return ev.Fail("CDF(%v) = %.15g, exact %.15g", x, got, want)
		}
		ev.MaxErr("CDF", math.Abs(got-want)/tol)
		if x < 0 && got != 0 {
			return ev.Fail("CDF(%v) = %v below zero, want exactly 0", x, got)
		}
		if x >= float64(nn) && got != 1 {
			return ev.Fail("CDF(%v) = %v at or above N1*N2, want exactly 1", x, got)
		}
		if got < prev-1e-13 {
			return ev.Fail("CDF decreases: CDF(%v)=%.17g after %.17g", x, got, prev)
		}
		if got > prev {
			prev = got
		}
		if got > 0 && got < 1 && (hasTies || (c.N1 >= 2 && c.N2 >= 2)) {
			nt = true
		}
		// PMF only where the point is attainable (on the grid with positive mass)
		if x >= 0 && x == float64(w)/2 && u.Attainable(w) {
			pm := d.PMF(x)
			wantPM := u.PEQ(w)
			if !(math.Abs(pm-wantPM) <= tol) {
				return ev.Fail("PMF(%v) = %.15g, exact %.15g", x, pm, wantPM)
			}
			ev.MaxErr("PMF", math.Abs(pm-wantPM)/tol)
			sumPMF += pm
		}
		// mirror law on the grid
		if x == float64(w)/2 && x >= -1 && x <= float64(nn)+1 {
			m := mirror.CDF(float64(nn) - x - 0.5)
			if !(math.Abs(got+m-1) <= 2*tol) {
				return ev.Fail("mirror law: CDF_{%d,%d}(%v)=%.15g + CDF_{%d,%d}(%v)=%.15g != 1", c.N1, c.N2, x, got, c.N2, c.N1, float64(nn)-x-0.5, m)
			}
		}
	}
	if c.Grid {
		if !(math.Abs(sumPMF-1) <= 1e-9) {
			return ev.Fail("PMF over attainable points sums to %.15g", sumPMF)
		}
	}
	// the same backing array with new contents (a caller that recycles its tie vector): the
	// result must follow the contents
	if T != nil && len(T) >= 2 {
		rev := make([]int, len(T))
		for i, t := range c.T {
			rev[len(T)-1-i] = t
		}
		same := true
		for i := range rev {
			if rev[i] != c.T[i] {
				same = false
			}
		}
		if !same {
			probe := float64(nn) / 2
			if len(us) > 0 {
				probe = us[len(us)/2]
			}
			_ = d.CDF(probe)
			copy(T, rev) // overwrite in place
			ur := ref.UExact(c.N1, c.N2, rev)
			for _, x := range []float64{probe, math.Floor(float64(nn) / 3)} {
				var want float64
				switch {
				case x < 0:
					want = 0
				case x >= float64(nn):
					want = 1
				default:
					want = ur.PLE(int(math.Floor(2 * x)))
				}
				if got := d.CDF(x); !(math.Abs(got-want) <= tol) {
					return ev.Fail("after the tie vector was overwritten in place with %v, CDF(%v) = %.15g, exact %.15g", rev, x, got, want)
				}
			}
		}
	}
	classes := []string{}
	switch {
	case c.T == nil:
		classes = append(classes, "T=nil")
	case !hasTies:
		classes = append(classes, "T=ones")
	case len(c.T) == 2:
		classes = append(classes, "two-ranks")
	default:
		classes = append(classes, "ties")
	}
	if c.Grid {
		classes = append(classes, "grid")
	}
	return ev.Outcome{NT: nt, Classes: classes}
})

const rule = "UDist{N1,N2,T}.PMF/CDF/Bounds/Step vs an exact 128-bit-integer count (anchored to literal subset enumeration " +
	"for N<=10 in the harness' own tests). Exhaustive part: every (N1,N2,T) with N1+N2<=N*, T over all compositions with >=2 " +
	"parts plus nil, every point of the half-integer grid from -1 to N1*N2+1: CDF everywhere, PMF at attainable points, " +
	"monotone, sum=1, mirror law, exact 0/1 outside. Random part: sizes up to 50+50 (T nil / all ones) and 25+25 with ties, " +
	"grid points, off-grid reals, negative, beyond the top and huge u. Non-trivial: (tie vector has a part >1 or N1,N2>=2) " +
	"and 0<CDF<1 at a probed point; distinct = different canonical JSON of the case."

func TestExhaustive(t *testing.T) {
	if ev.Replaying() {
		return
	}
	ev.Rule(rule)
	maxN := 9
	if ev.Thorough() {
		maxN = 12
	}
	if s := os.Getenv("VERIF_C02_MAXN"); s != "" {
		fmt.Sscan(s, &maxN)
	}
	var cases []*Case
	var rec func(rest int, T []int)
	rec = func(rest int, T []int) {
		if rest == 0 {
			if len(T) >= 2 {
				N := 0
				for _, x := range T {
					N += x
				}
				for n1 := 1; n1 < N; n1++ {
					cases = append(cases, &Case{N1: n1, N2: N - n1, T: append([]int(nil), T...), Grid: true})
				}
			}
			return
		}
		for p := 1; p <= rest; p++ {
			rec(rest-p, append(T, p))
		}
	}
	for N := 2; N <= maxN; N++ {
		rec(N, nil)
		for n1 := 1; n1 < N; n1++ {
			cases = append(cases, &Case{N1: n1, N2: N - n1, T: nil, Grid: true})
		}
	}
	ev.Parallel(t, len(cases), func(tb ev.TB, i int) {
		if ev.MyShare(i) {
			checkUDist.RunEnum(tb, cases[i])
		}
	})
	ev.Exhaustive(fmt.Sprintf("all (N1,N2,T) with N1+N2 <= %d on the full half-integer grid", maxN))
}

// TestBigGroups enumerates tie vectors with one large group (every size up to the tied
// limit) surrounded by a few small ones, at several positions: the binomials of a big tie
// group enter the recurrence only there.
func TestBigGroups(t *testing.T) {
	if ev.Replaying() {
		return
	}
	ev.Rule(rule)
	var cases []*Case
	small := [][]int{{}, {1}, {2}, {1, 1}, {1, 2}, {3}}
	if !ev.Thorough() {
		small = [][]int{{}, {1, 1}, {2}}
	}
	for g := 2; g <= 48; g++ {
		for _, before := range small {
			for _, after := range small {
				T := append(append(append([]int{}, before...), g), after...)
				if len(T) < 2 {
					continue
				}
				N := 0
				for _, x := range T {
					N += x
				}
				if N > 50 {
					continue
				}
				for _, n1 := range []int{N / 2, g / 2, N - 25} {
					if n1 < 1 || n1 > 25 || N-n1 < 1 || N-n1 > 25 {
						continue
					}
					nn := float64(n1 * (N - n1))
					cases = append(cases, &Case{N1: n1, N2: N - n1, T: T, Us: []ev.F{ev.F(nn / 2), ev.F(math.Floor(nn / 3)), ev.F(math.Floor(nn*2/3) + 0.5)}})
				}
			}
		}
	}
	ev.Parallel(t, len(cases), func(tb ev.TB, i int) {
		if ev.MyShare(i) {
			checkUDist.RunEnum(tb, cases[i])
		}
	})
	ev.Exhaustive(fmt.Sprintf("tie vectors with one big group of every size 2..48 between small groups (%d distributions)", len(cases)))
}

func drawCase(t *rapid.T) *Case {
	tieStyle := rapid.SampledFrom([]int{-1, 0, 1, 2, 3, 4, 4}).Draw(t, "tieStyle") // -1: T=nil
	lim := 25
	if tieStyle <= 0 {
		lim = 50
	}
	var n1, n2 int
	switch rapid.SampledFrom([]string{"small", "small", "small", "mid", "limit"}).Draw(t, "size") {
	case "small":
		n1, n2 = rapid.IntRange(1, 8).Draw(t, "n1"), rapid.IntRange(1, 8).Draw(t, "n2")
	case "mid":
		n1, n2 = rapid.IntRange(1, lim).Draw(t, "n1"), rapid.IntRange(1, lim).Draw(t, "n2")
	default:
		n1, n2 = lim, rapid.IntRange(1, lim).Draw(t, "n2")
		if rapid.Bool().Draw(t, "flip") {
			n1, n2 = n2, n1
		}
	}
	c := &Case{N1: n1, N2: n2}
	if tieStyle >= 0 {
		c.T = gen.Composition(t, n1+n2, tieStyle, "T")
		if len(c.T) < 2 {
			c.T = []int{n1 + n2 - 1, 1}
		}
	}
	nn := n1 * n2
	npts := rapid.IntRange(1, 6).Draw(t, "npts")
	for i := 0; i < npts; i++ {
		var x float64
		switch rapid.IntRange(0, 6).Draw(t, "kind") {
		case 6:
			// just below / above a grid point: "the mass at points <= u" must not snap to the grid
			g := float64(rapid.IntRange(0, 2*nn).Draw(t, "w")) / 2
			x = rapid.SampledFrom([]float64{math.Nextafter(g, math.Inf(-1)), math.Nextafter(g, math.Inf(1)), g - 1e-13, g + 1e-13, g - 1e-9}).Draw(t, "near")
		case 0, 1:
			x = float64(rapid.IntRange(0, 2*nn).Draw(t, "w")) / 2
		case 2:
			x = float64(rapid.IntRange(0, 2*nn).Draw(t, "w"))/2 + rapid.Float64Range(0.001, 0.499).Draw(t, "off")
		case 3:
			x = -rapid.Float64Range(0, 10).Draw(t, "neg")
		case 4:
			x = float64(nn) + rapid.Float64Range(0, 10).Draw(t, "above")
		default:
			x = gen.LogUniform(t, 1, 1e300, "huge")
		}
		c.Us = append(c.Us, ev.F(x))
	}
	return c
}

// siblings returns tie vectors that a careless cache key would confuse with T.
func siblings(t *rapid.T, T []int, n1 int) [][]int {
	var out [][]int
	ok := func(b []int) bool {
		s := 0
		for _, x := range b {
			if x < 1 {
				return false
			}
			s += x
		}
		return len(b) >= 2 && s > n1 && s-n1 <= 25 && n1 <= 25 && fmt.Sprint(b) != fmt.Sprint(T)
	}
	// the same decimal digits grouped differently: [1 12] <-> [11 2] <-> [1 1 2]
	digits := ""
	for _, x := range T {
		digits += fmt.Sprint(x)
	}
	for try := 0; try < 3; try++ {
		var b []int
		for i := 0; i < len(digits); {
			l := 1
			if i+1 < len(digits) && digits[i] != '0' && rapid.Bool().Draw(t, "twoDigits") {
				l = 2
			}
			v := 0
			fmt.Sscan(digits[i:i+l], &v)
			b = append(b, v)
			i += l
		}
		if ok(b) {
			out = append(out, b)
			break
		}
	}
	// the same counts in another order
	rev := make([]int, len(T))
	for i, x := range T {
		rev[len(T)-1-i] = x
	}
	if ok(rev) {
		out = append(out, rev)
	}
	rot := append(append([]int(nil), T[1:]...), T[0])
	if ok(rot) {
		out = append(out, rot)
	}
	// the same sum and length, one unit moved
	if len(T) >= 2 {
		mv := append([]int(nil), T...)
		i := rapid.IntRange(0, len(T)-1).Draw(t, "moveFrom")
		j := (i + 1 + rapid.IntRange(0, len(T)-2).Draw(t, "moveTo")) % len(T)
		mv[i]--
		mv[j]++
		if ok(mv) {
			out = append(out, mv)
		}
	}
	return out
}

func TestRandom(t *testing.T) {
	ev.Rule(rule)
	ev.Rapid(t, "c02-random", 1500, 16000, func(rt *rapid.T) {
		c := drawCase(rt)
		if c.T != nil && c.N1 <= 25 && c.N2 <= 25 && rapid.Bool().Draw(rt, "withSiblings") {
			c.Before = siblings(rt, c.T, c.N1)
		}
		checkUDist.Run(rt, c)
	})
}

// TestSiblingVectors: tie vectors with a two-digit count (where concatenated keys collide),
// each evaluated after its siblings.
func TestSiblingVectors(t *testing.T) {
	ev.Rule(rule)
	ev.Rapid(t, "c02-siblings", 600, 8000, func(rt *rapid.T) {
		n1 := rapid.IntRange(1, 8).Draw(rt, "n1")
		big := rapid.IntRange(10, 24).Draw(rt, "bigCount")
		T := []int{big}
		for k := rapid.IntRange(1, 3).Draw(rt, "others"); k > 0; k-- {
			T = append(T, rapid.IntRange(1, 4).Draw(rt, "small"))
		}
		if rapid.Bool().Draw(rt, "bigLast") {
			T[0], T[len(T)-1] = T[len(T)-1], T[0]
		}
		sum := 0
		for _, x := range T {
			sum += x
		}
		if sum-n1 > 25 || sum-n1 < 1 {
			rt.Skip("sizes")
		}
		c := &Case{N1: n1, N2: sum - n1, T: T}
		nn := c.N1 * c.N2
		for i := 0; i < 6; i++ {
			c.Us = append(c.Us, ev.F(float64(rapid.IntRange(0, 2*nn).Draw(rt, "w"))/2))
		}
		c.Before = siblings(rt, T, n1)
		checkUDist.Run(rt, c)
	})
}
