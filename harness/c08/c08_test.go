// Package c08 decides property C08: the mathx special functions are accurate
// and obey their identities.
package c08

import (
	"fmt"
	"math"
	"math/big"
	"sort"
	"testing"

	"github.com/aclements/go-moremath/mathx"
	"gonum.org/v1/gonum/mathext"
	"pgregory.net/rapid"

	"verifharness/internal/ev"
	"verifharness/internal/gen"
	"verifharness/internal/ref"
)

func TestMain(m *testing.M) { ev.Main(m, "C08") }

func TestReplay(t *testing.T) { ev.Replay(t) }

const (
	tolAcc  = 1e-9
	tolLaw  = 1e-12
	monoTol = 1e-11 // both evaluation branches are accurate to ~1e-11; a decrease beyond that is a violation
)

// ---------------------------------------------------------------- incomplete beta

type BetaCase struct {
	A  float64 `json:"a"`
	B  float64 `json:"b"`
	Xs []ev.F  `json:"xs"`
}

// betaIntClosed is I_x(a,b) for positive integers a,b: the upper binomial
// tail sum_{j>=a} C(n,j) x^j (1-x)^(n-j), n = a+b-1, in 400-bit arithmetic.
func betaIntClosed(x float64, a, b int) float64 {
	n := a + b - 1
	bx, b1 := ref.B(x), ref.Sub(ref.BI(1), ref.B(x))
	px := make([]*big.Float, n+1)
	p1 := make([]*big.Float, n+1)
	px[0], p1[0] = ref.BI(1), ref.BI(1)
	for i := 1; i <= n; i++ {
		px[i] = ref.Mul(px[i-1], bx)
		p1[i] = ref.Mul(p1[i-1], b1)
	}
	sum := ref.BI(0)
	for j := a; j <= n; j++ {
		c := new(big.Float).SetPrec(ref.Prec).SetInt(new(big.Int).Binomial(int64(n), int64(j)))
		sum = ref.Add(sum, ref.Mul(c, ref.Mul(px[j], p1[n-j])))
	}
	return ref.F64(sum)
}

func isInt(v float64) bool { return v == math.Floor(v) }

var checkBeta = ev.Register("betainc", func(c *BetaCase) ev.Outcome {
	a, b := c.A, c.B
	if !(a >= 0.05 && a <= 300 && b >= 0.05 && b <= 300) {
		return ev.Fail("harness error: parameters outside the stated range")
	}
	xs := ev.Floats(c.Xs)
	// every case also probes the floats adjacent to the ends of [0,1], inside and outside
	xs = append(xs, math.Nextafter(1, 2), 1+0x1p-51, -5e-324, -0x1p-1022, math.Nextafter(1, 0), 5e-324, 0x1p-1022, math.Inf(1), math.Inf(-1))
	sort.Float64s(xs)
	if v := mathx.BetaInc(0, a, b); v != 0 {
		return ev.Fail("BetaInc(0,%v,%v) = %v", a, b, v)
	}
	if v := mathx.BetaInc(1, a, b); v != 1 {
		return ev.Fail("BetaInc(1,%v,%v) = %v", a, b, v)
	}
	nt := false
	prev := 0.0
	classes := []string{"betainc"}
	for _, x := range xs {
		got := mathx.BetaInc(x, a, b)
		if x < 0 || x > 1 {
			if !math.IsNaN(got) {
				return ev.Fail("BetaInc(%v,%v,%v) = %v, want NaN", x, a, b, got)
			}
			continue
		}
		want := mathext.RegIncBeta(a, b, x)
		if !(math.Abs(got-want) <= tolAcc) {
			return ev.Fail("BetaInc(%v,%v,%v) = %.17g, reference %.17g", x, a, b, got, want)
		}
		ev.MaxErr("betainc-vs-mathext", math.Abs(got-want)/tolAcc)
		if isInt(a) && isInt(b) && a+b <= 120 {
			cf := betaIntClosed(x, int(a), int(b))
			if !(math.Abs(got-cf) <= tolAcc) {
				return ev.Fail("BetaInc(%v,%v,%v) = %.17g, closed form %.17g", x, a, b, got, cf)
			}
			ev.MaxErr("betainc-vs-closed-form", math.Abs(got-cf)/tolAcc)
			classes = append(classes, "beta-integer-closed-form")
		}
		if !(got >= 0 && got <= 1) {
			return ev.Fail("BetaInc(%v,%v,%v) = %.17g outside [0,1]", x, a, b, got)
		}
		if got < prev-monoTol {
			return ev.Fail("BetaInc(.,%v,%v) decreases: %.17g at x=%v after %.17g", a, b, got, x, prev)
		}
		ev.MaxErr("betainc-monotone-dip", (prev-got)/monoTol)
		if got > prev {
			prev = got
		}
		// reflection, when 1-x is exactly representable
		if y := 1 - x; 1-y == x {
			if s := got + mathx.BetaInc(y, b, a); !(math.Abs(s-1) <= tolLaw) {
				return ev.Fail("BetaInc(%v,%v,%v)+BetaInc(%v,%v,%v) = %.17g", x, a, b, y, b, a, s)
			}
			classes = append(classes, "beta-reflection")
		}
		if got > 1e-12 && got < 1-1e-12 {
			nt = true
		}
		sw := (a + 1) / (a + b + 2)
		if math.Abs(x-sw) < 1e-5 {
			classes = append(classes, "beta-near-branch-switch")
		}
	}
	return ev.OK(nt, uniq(classes)...)
})

func uniq(xs []string) []string {
	seen := map[string]bool{}
	var out []string
	for _, x := range xs {
		if !seen[x] {
			seen[x] = true
			out = append(out, x)
		}
	}
	return out
}

// ---------------------------------------------------------------- incomplete gamma

type GammaCase struct {
	A  ev.F   `json:"a"`
	Xs []ev.F `json:"xs"`
}

// gammaIntClosedQ is Q(a,x) = e^-x sum_{k<a} x^k/k! for a positive integer a.
func gammaIntClosedQ(a int, x float64) float64 {
	bx := ref.B(x)
	term := ref.BI(1)
	sum := ref.BI(1)
	for k := 1; k < a; k++ {
		term = ref.Quo(ref.Mul(term, bx), ref.BI(k))
		sum = ref.Add(sum, term)
	}
	return ref.F64(ref.Mul(sum, ref.Exp(ref.Neg(bx))))
}

var checkGamma = ev.Register("gammainc", func(c *GammaCase) ev.Outcome {
	a := float64(c.A)
	xs := ev.Floats(c.Xs)
	xs = append(xs, -5e-324, -0x1p-1022, 5e-324, 0x1p-1022, math.Inf(-1))
	sort.Float64s(xs)
	valid := a >= 0.05 && a <= 300
	if !valid && !(a <= 0 || math.IsNaN(a)) {
		return ev.Fail("harness error: a outside the stated range")
	}
	nt := false
	prevP, prevQ := 0.0, 1.0
	classes := []string{"gammainc"}
	for _, x := range xs {
		p, q := mathx.GammaInc(a, x), mathx.GammaIncComp(a, x)
		if !valid || x < 0 || math.IsNaN(x) {
			if !math.IsNaN(p) || !math.IsNaN(q) {
				return ev.Fail("GammaInc/GammaIncComp(%v,%v) = %v,%v, want NaN", a, x, p, q)
			}
			classes = append(classes, "gamma-invalid")
			continue
		}
		var wp, wq float64
		if x >= 1e4 {
			// far tail (a <= 300): Q < exp(-9000), so P = 1 and Q = 0 to any float64
			// tolerance, up to and including x = +Inf
			wp, wq = 1, 0
			classes = append(classes, "gamma-far-tail")
		} else {
			wp, wq = mathext.GammaIncReg(a, x), mathext.GammaIncRegComp(a, x)
		}
		if !(math.Abs(p-wp) <= tolAcc) || !(math.Abs(q-wq) <= tolAcc) {
			return ev.Fail("GammaInc(%v,%v) = %.17g (reference %.17g), GammaIncComp = %.17g (reference %.17g)", a, x, p, wp, q, wq)
		}
		ev.MaxErr("gammainc-vs-mathext", math.Max(math.Abs(p-wp), math.Abs(q-wq))/tolAcc)
		if isInt(a) && a <= 170 && x < 1e4 {
			cq := gammaIntClosedQ(int(a), x)
			if !(math.Abs(q-cq) <= tolAcc) || !(math.Abs(p-(1-cq)) <= tolAcc) {
				return ev.Fail("integer a=%v x=%v: P=%.17g Q=%.17g, closed form Q=%.17g", a, x, p, q, cq)
			}
			ev.MaxErr("gammainc-vs-closed-form", math.Abs(q-cq)/tolAcc)
			classes = append(classes, "gamma-integer-closed-form")
		}
		if !(math.Abs(p+q-1) <= tolLaw) {
			return ev.Fail("GammaInc+GammaIncComp(%v,%v) = %.17g", a, x, p+q)
		}
		if !(p >= 0 && p <= 1 && q >= 0 && q <= 1) {
			return ev.Fail("GammaInc/Comp(%v,%v) = %v,%v outside [0,1]", a, x, p, q)
		}
		if p < prevP-monoTol || q > prevQ+monoTol {
			return ev.Fail("not monotone in x at a=%v x=%v: P %.17g after %.17g, Q %.17g after %.17g", a, x, p, prevP, q, prevQ)
		}
		if p > prevP {
			prevP = p
		}
		if q < prevQ {
			prevQ = q
		}
		if p > 1e-12 && p < 1-1e-12 {
			nt = true
		}
		if math.Abs(x-(a+1)) < 1e-5 {
			classes = append(classes, "gamma-near-branch-switch")
		}
	}
	return ev.OK(nt, uniq(classes)...)
})

// ---------------------------------------------------------------- Choose, Lchoose (exhaustive rows)

type ChooseRow struct {
	N int `json:"n"`
}

var checkChoose = ev.Register("choose-row", func(c *ChooseRow) ev.Outcome {
	n := c.N
	exact := big.NewInt(1) // C(n,0)
	for k := -2; k <= n+2; k++ {
		got, lg := mathx.Choose(n, k), mathx.Lchoose(n, k)
		if k < 0 || k > n {
			if got != 0 {
				return ev.Fail("Choose(%d,%d) = %v, want 0", n, k, got)
			}
			if !math.IsNaN(lg) {
				return ev.Fail("Lchoose(%d,%d) = %v, want NaN", n, k, lg)
			}
			continue
		}
		if k > 0 {
			exact = new(big.Int).Mul(exact, big.NewInt(int64(n-k+1)))
			exact.Quo(exact, big.NewInt(int64(k)))
		}
		want, _ := new(big.Float).SetInt(exact).Float64()
		if n <= 20 {
			if got != want {
				return ev.Fail("Choose(%d,%d) = %v, exact %v", n, k, got, want)
			}
		} else if !(math.Abs(got-want) <= 1e-10*want) {
			return ev.Fail("Choose(%d,%d) = %.17g, exact %.17g", n, k, got, want)
		}
		ev.MaxErr("choose", math.Abs(got-want)/(1e-10*want))
		if sym := mathx.Choose(n, n-k); !(math.Abs(sym-got) <= 1e-10*want) {
			return ev.Fail("Choose(%d,%d) = %v but Choose(%d,%d) = %v", n, k, got, n, n-k, sym)
		}
		wl := ref.F64(ref.Ln(new(big.Float).SetPrec(ref.Prec).SetInt(exact)))
		if (k == 0 || k == n) && lg != 0 {
			return ev.Fail("Lchoose(%d,%d) = %v, want 0", n, k, lg)
		}
		if !(math.Abs(lg-wl) <= 1e-10*math.Abs(wl)+1e-12) {
			return ev.Fail("Lchoose(%d,%d) = %.17g, ln of the exact coefficient %.17g", n, k, lg, wl)
		}
		ev.MaxErr("lchoose", math.Abs(lg-wl)/(1e-10*math.Abs(wl)+1e-12))
	}
	return ev.OK(n >= 2, "choose-row")
})

// ---------------------------------------------------------------- Beta, Sign

type BetaFnCase struct {
	A float64 `json:"a"`
	B float64 `json:"b"`
}

// gammaHalfInt returns Gamma(v) for v a positive multiple of 1/2, in 400 bits.
func gammaHalfInt(v float64) *big.Float {
	if isInt(v) {
		f := new(big.Int).MulRange(1, int64(v)-1) // (v-1)!
		if v <= 1 {
			f = big.NewInt(1)
		}
		return new(big.Float).SetPrec(ref.Prec).SetInt(f)
	}
	// Gamma(n+1/2) = (2n)! sqrt(pi) / (4^n n!)
	n := int64(v - 0.5)
	num := new(big.Float).SetPrec(ref.Prec).SetInt(new(big.Int).MulRange(1, 2*n))
	if n == 0 {
		num = ref.BI(1)
	}
	den := new(big.Int).Exp(big.NewInt(4), big.NewInt(n), nil)
	if n > 0 {
		den.Mul(den, new(big.Int).MulRange(1, n))
	}
	return ref.Quo(ref.Mul(num, ref.Sqrt(bigPi())), new(big.Float).SetPrec(ref.Prec).SetInt(den))
}

// bigPi by Machin's formula.
func bigPi() *big.Float {
	atanInv := func(n int) *big.Float { // atan(1/n)
		x := ref.Quo(ref.BI(1), ref.BI(n))
		x2 := ref.Mul(x, x)
		term, sum := x, x
		for k := 3; k < 2000; k += 2 {
			term = ref.Mul(term, x2)
			t := ref.Quo(term, ref.BI(k))
			if (k/2)%2 == 1 {
				sum = ref.Sub(sum, t)
			} else {
				sum = ref.Add(sum, t)
			}
			if t.MantExp(nil) < -ref.Prec-10 {
				break
			}
		}
		return sum
	}
	return ref.Mul(ref.BI(4), ref.Sub(ref.Mul(ref.BI(4), atanInv(5)), atanInv(239)))
}

var checkBetaFn = ev.Register("beta-function", func(c *BetaFnCase) ev.Outcome {
	got := mathx.Beta(c.A, c.B)
	var want float64
	cl := "beta-vs-mathext"
	if isInt(2*c.A) && isInt(2*c.B) && c.A+c.B <= 170 {
		want = ref.F64(ref.Quo(ref.Mul(gammaHalfInt(c.A), gammaHalfInt(c.B)), gammaHalfInt(c.A+c.B)))
		cl = "beta-closed-form"
	} else {
		want = mathext.Beta(c.A, c.B)
	}
	if !(math.Abs(got-want) <= 1e-11*want) {
		return ev.Fail("Beta(%v,%v) = %.17g, reference %.17g (%s)", c.A, c.B, got, want, cl)
	}
	ev.MaxErr(cl, math.Abs(got-want)/(1e-11*want))
	if s := mathx.Beta(c.B, c.A); !(math.Abs(s-got) <= 1e-12*got) {
		return ev.Fail("Beta(%v,%v) = %v but Beta(%v,%v) = %v", c.A, c.B, got, c.B, c.A, s)
	}
	return ev.OK(true, cl)
})

type SignCase struct {
	X ev.F `json:"x"`
}

var checkSign = ev.Register("sign", func(c *SignCase) ev.Outcome {
	x := float64(c.X)
	got := mathx.Sign(x)
	switch {
	case math.IsNaN(x):
		if !math.IsNaN(got) {
			return ev.Fail("Sign(NaN) = %v", got)
		}
	case x > 0:
		if got != 1 {
			return ev.Fail("Sign(%v) = %v", x, got)
		}
	case x < 0:
		if got != -1 {
			return ev.Fail("Sign(%v) = %v", x, got)
		}
	default:
		if got != 0 {
			return ev.Fail("Sign(%v) = %v", x, got)
		}
	}
	return ev.OK(true, "sign")
})

// ---------------------------------------------------------------- generators

const rule = "BetaInc: a,b log-uniform in [0.05,300] (plus integer pairs), sorted x lists drawn uniform, log-uniform toward 0 and 1, " +
	"around the mean +-4 sd and within 1e-6 of the branch switch (a+1)/(a+b+2), plus x outside [0,1]: vs gonum mathext.RegIncBeta " +
	"(1e-9) and, for integer a,b, the finite binomial sum in 400-bit arithmetic (1e-9); range, exact end values, monotone on the " +
	"sorted list (dips above 1e-11 fail), reflection law (1e-12, when 1-x is exact), NaN outside. GammaInc/GammaIncComp: a " +
	"likewise, x log-uniform 1e-300..1e4, around a+-8sqrt(a) and the switch a+1, invalid arguments: vs mathext (1e-9) and the " +
	"Poisson sum for integer a, P+Q=1 (1e-12), monotone, NaN rules. Choose/Lchoose: exhaustively every n<=1000, k=-2..n+2 vs " +
	"exact big integers (exact for n<=20, 1e-10 relative otherwise, 0/NaN outside, symmetry, ln). Beta vs Gamma closed forms at " +
	"integers/half-integers and mathext.Beta elsewhere (1e-11 relative). Sign on all classes of floats. Non-trivial: a value in " +
	"(1e-12,1-1e-12) was checked; distinct = different canonical JSON."

func drawAB(t *rapid.T, label string) float64 {
	switch rapid.IntRange(0, 3).Draw(t, label+".kind") {
	case 1:
		return float64(rapid.IntRange(1, 60).Draw(t, label+".int"))
	case 2:
		return float64(rapid.IntRange(1, 120).Draw(t, label+".half")) / 2
	case 3:
		return rapid.SampledFrom([]float64{0.05, 0.5, 1, 2, 3, 300}).Draw(t, label+".edge")
	default:
		return gen.LogUniform(t, 0.05, 300, label)
	}
}

func TestBetaInc(t *testing.T) {
	ev.Rule(rule)
	ev.Rapid(t, "c08-betainc", 8000, 1600000, func(rt *rapid.T) {
		c := &BetaCase{A: drawAB(rt, "a"), B: drawAB(rt, "b")}
		if rapid.IntRange(0, 7).Draw(rt, "gammaLimit") == 0 {
			// where Gamma(a+b), Gamma(a) or Gamma(b) reaches the float64 limit (argument
			// 171.62): the sum just below and above it, one parameter small (its Gamma large)
			sum := 171.6244 + rapid.Float64Range(-0.6, 0.4).Draw(rt, "sumNearLimit")
			small := gen.LogUniform(rt, 0.05, 2, "smallParam")
			c.A, c.B = small, sum-small
			if rapid.Bool().Draw(rt, "swapAB") {
				c.A, c.B = c.B, c.A
			}
		}
		mean := c.A / (c.A + c.B)
		sd := math.Sqrt(c.A * c.B / ((c.A + c.B) * (c.A + c.B) * (c.A + c.B + 1)))
		sw := (c.A + 1) / (c.A + c.B + 2)
		n := rapid.IntRange(1, 6).Draw(rt, "nx")
		for i := 0; i < n; i++ {
			var x float64
			switch rapid.IntRange(0, 7).Draw(rt, "xkind") {
			case 0:
				x = rapid.Float64Range(0, 1).Draw(rt, "x")
			case 1:
				x = gen.LogUniform(rt, 1e-300, 0.5, "xlog")
			case 2:
				x = 1 - gen.LogUniform(rt, 1e-16, 0.5, "xnear1")
			case 3, 4:
				x = mean + rapid.Float64Range(-4, 4).Draw(rt, "z")*sd
			case 5:
				x = sw + rapid.Float64Range(-1e-6, 1e-6).Draw(rt, "dsw")
			case 6:
				x = float64(rapid.IntRange(0, 1024).Draw(rt, "dyadic")) / 1024
			default:
				x = rapid.SampledFrom([]float64{-0.5, 1.5, -1e-300, 1 + 1e-15, 0, 1}).Draw(rt, "xinvalid")
			}
			if x > 1 && x < 1.0000000001 {
				x = 1
			}
			if x < 0 && x > -1e-200 && x != -1e-300 {
				x = 0
			}
			if (x < 0 || x > 1) && rapid.IntRange(0, 7).Draw(rt, "keepInvalid") != 0 {
				x = math.Min(1, math.Max(0, x))
			}
			c.Xs = append(c.Xs, ev.F(x))
		}
		checkBeta.Run(rt, c)
	})
}

func TestGammaInc(t *testing.T) {
	ev.Rule(rule)
	ev.Rapid(t, "c08-gammainc", 8000, 1600000, func(rt *rapid.T) {
		c := &GammaCase{A: ev.F(drawAB(rt, "a"))}
		if rapid.IntRange(0, 30).Draw(rt, "invalidA") == 0 {
			c.A = ev.F(rapid.SampledFrom([]float64{0, -1, -0.05, math.NaN(), math.Inf(-1)}).Draw(rt, "abad"))
		}
		a := float64(c.A)
		n := rapid.IntRange(1, 6).Draw(rt, "nx")
		for i := 0; i < n; i++ {
			var x float64
			switch rapid.IntRange(0, 8).Draw(rt, "xkind") {
			case 7:
				x = gen.LogUniform(rt, 1e4, 1e308, "xhuge")
			case 8:
				// where x^a, exp(-x) or x itself reach the limits of float64
				x = rapid.SampledFrom([]float64{math.Inf(1), math.MaxFloat64, 1e300, 1e154, 1e100, 1e31, 1e16, 745, 710}).Draw(rt, "xlimit")
			case 0:
				x = gen.LogUniform(rt, 1e-300, 1e4, "xlog")
			case 1, 2:
				x = math.Max(0, a+rapid.Float64Range(-8, 8).Draw(rt, "z")*math.Sqrt(math.Abs(a)))
			case 3:
				x = math.Max(0, a+1+rapid.Float64Range(-1e-6, 1e-6).Draw(rt, "dsw"))
			case 4:
				x = rapid.Float64Range(0, 50).Draw(rt, "x")
			case 5:
				x = float64(rapid.IntRange(0, 400).Draw(rt, "xint"))
			default:
				x = rapid.SampledFrom([]float64{-1, -1e-300, math.NaN(), 0}).Draw(rt, "xbad")
			}
			if math.IsNaN(a) {
				x = math.Abs(x)
			}
			c.Xs = append(c.Xs, ev.F(x))
		}
		checkGamma.Run(rt, c)
	})
}

func TestChooseExhaustive(t *testing.T) {
	if ev.Replaying() {
		return
	}
	ev.Rule(rule)
	ev.Parallel(t, 1001, func(tb ev.TB, n int) {
		if ev.MyShare(n) {
			checkChoose.RunEnum(tb, &ChooseRow{N: n})
		}
	})
	ev.Exhaustive("Choose and Lchoose for every n<=1000 and k=-2..n+2 (503505 pairs, one case per row n)")
}

func TestBetaFnAndSign(t *testing.T) {
	ev.Rule(rule)
	ev.Rapid(t, "c08-betafn", 2000, 200000, func(rt *rapid.T) {
		checkBetaFn.Run(rt, &BetaFnCase{A: drawAB(rt, "a"), B: drawAB(rt, "b")})
	})
	if ev.Replaying() {
		return
	}
	for _, x := range []float64{0, math.Copysign(0, -1), 1, -1, 5e-324, -5e-324, 1e300, -1e300, math.Inf(1), math.Inf(-1), math.NaN(), 0.5, -0.5, math.MaxFloat64, -math.MaxFloat64} {
		checkSign.Run(t, &SignCase{X: ev.F(x)})
	}
	ev.Rapid(t, "c08-sign", 200, 2000, func(rt *rapid.T) {
		checkSign.Run(rt, &SignCase{X: ev.F(rapid.Float64().Draw(rt, "x"))})
	})
}

var _ = fmt.Sprint
