// Package c07 decides property C07: the generic InvCDF returns the smallest x
// with CDF(x) >= y, and Rand samples the distribution.
package c07

import (
	"fmt"
	"math"
	"math/rand"
	"sort"
	"testing"

	"github.com/aclements/go-moremath/stats"
	"pgregory.net/rapid"

	"verifharness/internal/ev"
	"verifharness/internal/gen"
)

func TestMain(m *testing.M) { ev.Main(m, "C07") }

func TestReplay(t *testing.T) { ev.Replay(t) }

// PW is a user-defined piecewise CDF: right-continuous, 0 below Xs[0], linear
// from Right[i] at Xs[i] to Left[i+1] just below Xs[i+1], jumping to
// Right[i+1] at Xs[i+1]; Right[last] = 1.
type PW struct {
	Xs    []float64 `json:"xs"`
	Left  []float64 `json:"left"`
	Right []float64 `json:"right"`
}

func (p *PW) valid() bool {
	n := len(p.Xs)
	if n < 2 || len(p.Left) != n || len(p.Right) != n || p.Left[0] != 0 || p.Right[n-1] != 1 {
		return false
	}
	for i := 0; i < n; i++ {
		if !(p.Left[i] <= p.Right[i]) || (i > 0 && !(p.Xs[i] > p.Xs[i-1] && p.Right[i-1] <= p.Left[i])) {
			return false
		}
	}
	return true
}

func (p *PW) cdf(x float64) float64 {
	n := len(p.Xs)
	if x < p.Xs[0] {
		return 0
	}
	if x >= p.Xs[n-1] {
		return 1
	}
	i := sort.SearchFloat64s(p.Xs, x) // first Xs[i] >= x
	if p.Xs[i] == x {
		return p.Right[i]
	}
	i-- // Xs[i] < x < Xs[i+1]
	a, b := p.Right[i], p.Left[i+1]
	v := a + (x-p.Xs[i])/(p.Xs[i+1]-p.Xs[i])*(b-a)
	if v > b {
		v = b
	}
	return v
}

// counted wraps a distribution (hiding any methods beyond DistCommon) and
// counts CDF evaluations so that a non-terminating search is cut off.
type counted struct {
	cdf    func(float64) float64
	lo, hi float64
	n      int
	budget int
}

func (c *counted) CDF(x float64) float64 {
	c.n++
	if c.n > c.budget {
		ev.BudgetPanic(fmt.Sprintf("more than %d CDF evaluations in one generic InvCDF/Rand call", c.budget))
	}
	return c.cdf(x)
}
func (c *counted) Bounds() (float64, float64) { return c.lo, c.hi }

// Case is one distribution and a list of levels.
type Case struct {
	Kind   string    `json:"kind"` // pw, tdist, binom, hyper, udist, kde
	PW     *PW       `json:"pw,omitempty"`
	Params []float64 `json:"params,omitempty"`
	Ys     []ev.F    `json:"ys"`
	// AsDiscrete hands the distribution over as a stats.DiscreteDist (PMF and Step visible, no
	// quantile method of its own): whatever use the generic search makes of the step size (the
	// source carries a TODO to that effect), the result must stay the smallest x with CDF(x)>=y.
	// Only for kinds that are discrete: binom, hyper, udist, lattice.
	AsDiscrete bool `json:"as_discrete,omitempty"`
	// ReportedBounds, for the continuous and piecewise kinds (pw, tdist, kde): what the
	// user-defined distribution's Bounds method reports instead of the tight support -
	// "infinite" (-Inf,+Inf), "upper-infinite", "lower-infinite", or "huge" (-1e308,1e308: a
	// width that overflows). Bounds only promises "reasonable bounds"; the quantile function in
	// (0,1) must not depend on them, and the values at 0 and 1 follow the reported ends as stated
	// (round 11, R11-C07).
	ReportedBounds string `json:"reported_bounds,omitempty"`
}

// countedDiscrete is a counted distribution that also shows PMF and Step.
type countedDiscrete struct {
	*counted
	pmf  func(float64) float64
	step float64
}

func (c countedDiscrete) PMF(x float64) float64 { return c.pmf(x) }
func (c countedDiscrete) Step() float64         { return c.step }

// lattice is a user-defined discrete distribution as the DiscreteDist documentation describes
// it: defined on s*N, here the points s*k0, s*(k0+1), ... with integer weights.
type lattice struct {
	pts []float64 // the lattice points carrying the weights, ascending
	cum []float64 // cumulative weights / total
	pm  []float64
	s   float64
}

func newLattice(params []float64) *lattice {
	if len(params) < 3 {
		return nil
	}
	s, k0 := params[0], params[1]
	if !(s > 0) || k0 < 0 || k0 != math.Floor(k0) {
		return nil
	}
	l := &lattice{s: s}
	total := 0.0
	for _, w := range params[2:] {
		if w < 0 || w != math.Floor(w) {
			return nil
		}
		total += w
	}
	if total == 0 || params[2] == 0 || params[len(params)-1] == 0 {
		return nil
	}
	run := 0.0
	for j, w := range params[2:] {
		run += w
		l.pts = append(l.pts, s*(k0+float64(j)))
		l.cum = append(l.cum, run/total)
		l.pm = append(l.pm, w/total)
	}
	return l
}

// at returns the index of the largest lattice point <= x, or -1.
func (l *lattice) at(x float64) int {
	return sort.Search(len(l.pts), func(i int) bool { return l.pts[i] > x }) - 1
}

func (l *lattice) cdf(x float64) float64 {
	if i := l.at(x); i >= 0 {
		return l.cum[i]
	}
	return 0
}

func (l *lattice) pmf(x float64) float64 {
	if i := l.at(x); i >= 0 && x < l.pts[i]+l.s {
		return l.pm[i]
	}
	return 0
}

// dist returns what is handed to the library: the counted wrapper, with PMF and Step for
// AsDiscrete cases.
func dist(c *Case, w *counted) stats.DistCommon {
	if !c.AsDiscrete {
		return w
	}
	switch c.Kind {
	case "binom":
		d := stats.BinomialDist{N: int(c.Params[0]), P: c.Params[1]}
		return countedDiscrete{w, d.PMF, d.Step()}
	case "hyper":
		d := stats.HypergeometicDist{N: int(c.Params[0]), K: int(c.Params[1]), Draws: int(c.Params[2])}
		return countedDiscrete{w, d.PMF, d.Step()}
	case "udist":
		d := stats.UDist{N1: int(c.Params[0]), N2: int(c.Params[1])}
		return countedDiscrete{w, d.PMF, d.Step()}
	case "lattice":
		l := newLattice(c.Params)
		return countedDiscrete{w, l.pmf, l.s}
	}
	return w
}

func build(c *Case) (*counted, string) {
	w := &counted{budget: 200000}
	switch c.Kind {
	case "pw":
		if c.PW == nil || !c.PW.valid() {
			return nil, "invalid piecewise CDF"
		}
		w.cdf, w.lo, w.hi = c.PW.cdf, c.PW.Xs[0], c.PW.Xs[len(c.PW.Xs)-1]
	case "tdist":
		d := stats.TDist{V: c.Params[0]}
		w.cdf = d.CDF
		w.lo, w.hi = d.Bounds()
	case "binom":
		d := stats.BinomialDist{N: int(c.Params[0]), P: c.Params[1]}
		w.cdf = d.CDF
		w.lo, w.hi = d.Bounds()
	case "hyper":
		d := stats.HypergeometicDist{N: int(c.Params[0]), K: int(c.Params[1]), Draws: int(c.Params[2])}
		w.cdf = d.CDF
		w.lo, w.hi = d.Bounds()
	case "udist":
		d := stats.UDist{N1: int(c.Params[0]), N2: int(c.Params[1])}
		w.cdf = d.CDF
		w.lo, w.hi = d.Bounds()
	case "kde":
		d := &stats.KDE{Sample: stats.Sample{Xs: append([]float64(nil), c.Params[1:]...)}, Kernel: stats.GaussianKernel, Bandwidth: c.Params[0]}
		w.cdf = d.CDF
		w.lo, w.hi = d.Bounds()
	case "lattice":
		l := newLattice(c.Params)
		if l == nil {
			return nil, "invalid lattice"
		}
		w.cdf, w.lo, w.hi = l.cdf, l.pts[0], l.pts[len(l.pts)-1]
	default:
		return nil, "unknown kind"
	}
	switch c.ReportedBounds {
	case "":
	case "infinite", "upper-infinite", "lower-infinite", "huge":
		if c.Kind != "pw" && c.Kind != "tdist" && c.Kind != "kde" {
			return nil, "reported_bounds on a discrete kind"
		}
		switch c.ReportedBounds {
		case "infinite":
			w.lo, w.hi = math.Inf(-1), math.Inf(1)
		case "upper-infinite":
			w.hi = math.Inf(1)
		case "lower-infinite":
			w.lo = math.Inf(-1)
		case "huge":
			w.lo, w.hi = -1e308, 1e308
		}
	default:
		return nil, "unknown reported_bounds"
	}
	if c.AsDiscrete && c.Kind != "binom" && c.Kind != "hyper" && c.Kind != "udist" && c.Kind != "lattice" {
		return nil, "as_discrete on a kind that is not discrete"
	}
	return w, ""
}

func tau(x float64) float64 { return 1e-9 * math.Max(1, math.Abs(x)) }

var checkInv = ev.Register("invcdf", func(c *Case) ev.Outcome {
	w, msg := build(c)
	if w == nil {
		return ev.Fail("harness error: %s", msg)
	}
	inv := stats.InvCDF(dist(c, w))
	ys := ev.Floats(c.Ys)
	// every case also probes the floats adjacent to the ends of [0,1] from outside
	ys = append(ys, math.Nextafter(1, 2), 1+0x1p-51, -5e-324, -0x1p-1022, math.Inf(1), math.Inf(-1))
	sort.Float64s(ys) // NaNs (none generated) would sort first
	nt := false
	prevX := math.Inf(-1)
	for _, y := range ys {
		w.n = 0
		x := inv(y)
		switch {
		case y < 0 || y > 1:
			if !math.IsNaN(x) {
				return ev.Fail("InvCDF(%v) = %v, want NaN", y, x)
			}
			continue
		case y == 0:
			want := math.Inf(-1)
			if w.cdf(w.lo) == 0 {
				want = w.lo
			}
			if x != want {
				return ev.Fail("InvCDF(0) = %v, want %v (Bounds lower end %v, CDF there %v)", x, want, w.lo, w.cdf(w.lo))
			}
			continue
		case y == 1:
			want := math.Inf(1)
			if w.cdf(w.hi) == 1 {
				want = w.hi
			}
			if x != want {
				return ev.Fail("InvCDF(1) = %v, want %v (Bounds upper end %v, CDF there %v)", x, want, w.hi, w.cdf(w.hi))
			}
			continue
		}
		if math.IsNaN(x) || math.IsInf(x, 0) {
			return ev.Fail("InvCDF(%v) = %v", y, x)
		}
		t := tau(x)
		if up := w.cdf(x + t); !(up >= y) {
			return ev.Fail("InvCDF(%v) = %v is too small: CDF(%v) = %v < y", y, x, x+t, up)
		}
		if dn := w.cdf(x - t); !(dn < y) {
			return ev.Fail("InvCDF(%v) = %v is not the smallest such x: CDF(%v) = %v >= y", y, x, x-t, dn)
		}
		if x < prevX-t {
			return ev.Fail("InvCDF not monotone: InvCDF(%v) = %v after %v", y, x, prevX)
		}
		if x > prevX {
			prevX = x
		}
		nt = true
	}
	classes := []string{c.Kind}
	if c.AsDiscrete {
		classes = append(classes, "handed-over-as-DiscreteDist")
	}
	if c.ReportedBounds != "" {
		classes = append(classes, "reported-bounds-"+c.ReportedBounds)
	}
	if c.Kind == "pw" {
		jump, flat := false, false
		for i := range c.PW.Xs {
			if c.PW.Right[i] > c.PW.Left[i] {
				jump = true
			}
			if i > 0 && c.PW.Left[i] == c.PW.Right[i-1] {
				flat = true
			}
		}
		if jump {
			classes = append(classes, "pw-jump")
		}
		if flat {
			classes = append(classes, "pw-flat")
		}
		if c.PW.Right[0] > 0 {
			classes = append(classes, "pw-jump-at-lower-bound")
		}
		nt = nt && (jump || flat)
	}
	return ev.OK(nt, classes...)
})

// ---------------------------------------------------------------- dispatch

type stubDist struct{ calls *int }

func (s stubDist) CDF(x float64) float64      { return 0.5 }
func (s stubDist) Bounds() (float64, float64) { return 0, 1 }
func (s stubDist) InvCDF(y float64) float64   { *s.calls++; return 12345.5 + y }
func (s stubDist) Rand(r *rand.Rand) float64  { *s.calls++; return -777 }

// discreteStub also looks like a discrete distribution (PMF, Step): having a quantile
// method of its own must still win over any generic treatment of discrete distributions.
type discreteStub struct{ stubDist }

func (s discreteStub) PMF(x float64) float64 { return 0.25 }
func (s discreteStub) Step() float64         { return 1 }

// quantileOnlyStub has a quantile method but no Rand.
type quantileOnlyStub struct{ calls *int }

func (s quantileOnlyStub) CDF(x float64) float64      { return 0.5 }
func (s quantileOnlyStub) Bounds() (float64, float64) { return 0, 1 }
func (s quantileOnlyStub) InvCDF(y float64) float64   { *s.calls++; return -99 + y }

type DispatchCase struct {
	Mu    float64 `json:"mu"`
	Sigma float64 `json:"sigma"`
	T     float64 `json:"t"`
	Ys    []ev.F  `json:"ys"`
	Seed  int64   `json:"seed"`
}

func sameF(a, b float64) bool {
	return math.Float64bits(a) == math.Float64bits(b) || (math.IsNaN(a) && math.IsNaN(b))
}

var checkDispatch = ev.Register("dispatch", func(c *DispatchCase) ev.Outcome {
	nd := stats.NormalDist{Mu: c.Mu, Sigma: c.Sigma}
	dd := stats.DeltaDist{T: c.T}
	calls := 0
	sd := stubDist{&calls}
	fn, fd, fs := stats.InvCDF(nd), stats.InvCDF(dd), stats.InvCDF(sd)
	for _, yf := range c.Ys {
		y := float64(yf)
		if !sameF(fn(y), nd.InvCDF(y)) {
			return ev.Fail("InvCDF(NormalDist)(%v) = %v, method gives %v", y, fn(y), nd.InvCDF(y))
		}
		if !sameF(fd(y), dd.InvCDF(y)) {
			return ev.Fail("InvCDF(DeltaDist)(%v) = %v, method gives %v", y, fd(y), dd.InvCDF(y))
		}
		before := calls
		if got := fs(y); !sameF(got, 12345.5+y) || calls <= before {
			return ev.Fail("InvCDF(stub)(%v) = %v: own quantile method not used", y, got)
		}
		before = calls
		if got := stats.InvCDF(discreteStub{sd})(y); !sameF(got, 12345.5+y) || calls <= before {
			return ev.Fail("InvCDF(discrete stub)(%v) = %v: the distribution has PMF and Step, but also its own quantile method, which was not used", y, got)
		}
		qcalls := 0
		if got := stats.InvCDF(quantileOnlyStub{&qcalls})(y); !sameF(got, -99+y) || qcalls == 0 {
			return ev.Fail("InvCDF(stub without Rand)(%v) = %v: own quantile method not used", y, got)
		}
	}
	if got := stats.Rand(discreteStub{sd})(rand.New(rand.NewSource(c.Seed))); got != -777 {
		return ev.Fail("Rand(discrete stub) = %v: own Rand method not used", got)
	}
	r1, r2 := rand.New(rand.NewSource(c.Seed)), rand.New(rand.NewSource(c.Seed))
	rn := stats.Rand(nd)
	for i := 0; i < 8; i++ {
		if a, b := rn(r1), nd.Rand(r2); !sameF(a, b) {
			return ev.Fail("Rand(NormalDist) draw %d = %v, method gives %v", i, a, b)
		}
	}
	if got := stats.Rand(sd)(r1); got != -777 {
		return ev.Fail("Rand(stub) = %v: own Rand method not used", got)
	}
	return ev.OK(len(c.Ys) > 0, "dispatch")
})

// ---------------------------------------------------------------- Rand

// script is a rand.Source that replays fixed 63-bit values (so that y == 0 can
// be forced) and then continues with a seeded generator.
type script struct {
	vals []int64
	i    int
	rest rand.Source
}

func (s *script) Int63() int64 {
	if s.i < len(s.vals) {
		v := s.vals[s.i]
		s.i++
		return v
	}
	return s.rest.Int63()
}
func (s *script) Seed(int64) {}

type RandCase struct {
	Dist   Case    `json:"dist"` // Ys unused
	Script []int64 `json:"script"`
	Seed   int64   `json:"seed"`
	Exact  int     `json:"exact"` // draws compared one by one with InvCDF(y_i)
	KS     int     `json:"ks"`    // draws used for the Kolmogorov-Smirnov distance
}

var checkRand = ev.Register("rand", func(c *RandCase) ev.Outcome {
	w, msg := build(&c.Dist)
	if w == nil {
		return ev.Fail("harness error: %s", msg)
	}
	mk := func() *rand.Rand {
		return rand.New(&script{vals: c.Script, rest: rand.NewSource(c.Seed)})
	}
	// the CDF-call budget applies to each draw / inversion separately
	rawDraw, rawInv := stats.Rand(dist(&c.Dist, w)), stats.InvCDF(dist(&c.Dist, w))
	draw := func(r *rand.Rand) float64 { w.n = 0; return rawDraw(r) }
	inv := func(y float64) float64 { w.n = 0; return rawInv(y) }
	r1, r2 := mk(), mk()
	zeros := 0
	for i := 0; i < c.Exact; i++ {
		got := draw(r1)
		y := r2.Float64()
		for y == 0 {
			zeros++
			y = r2.Float64()
		}
		want := inv(y)
		if !sameF(got, want) {
			return ev.Fail("draw %d = %v, but InvCDF(y=%v) = %v (the sampler must be a deterministic function of the source)", i, got, y, want)
		}
		if math.IsNaN(got) || math.IsInf(got, 0) {
			return ev.Fail("draw %d = %v for y = %v", i, got, y)
		}
	}
	classes := []string{"rand-" + c.Dist.Kind}
	if zeros > 0 {
		classes = append(classes, "rand-zero-skipped")
	}
	if c.KS > 0 {
		r := rand.New(rand.NewSource(c.Seed + 1))
		xs := make([]float64, c.KS)
		for i := range xs {
			xs[i] = draw(r)
		}
		sort.Float64s(xs)
		n := float64(c.KS)
		ks := 0.0
		at := func(x float64) {
			// empirical CDF at x: number of draws <= x
			k := sort.Search(len(xs), func(i int) bool { return xs[i] > x })
			if a := math.Abs(float64(k)/n - w.cdf(x)); a > ks {
				ks = a
			}
		}
		for i, x := range xs {
			if i > 0 && xs[i-1] == x {
				continue
			}
			t := tau(x)
			at(x + t)
			at(x - t)
		}
		bound := math.Sqrt(math.Log(2/1e-9) / (2 * n))
		if !(ks <= bound) {
			return ev.Fail("KS distance of %d draws from the distribution's CDF is %v > %v", c.KS, ks, bound)
		}
		ev.MaxErr("KS", ks/bound)
		classes = append(classes, "rand-ks")
	}
	return ev.OK(true, classes...)
})

// ---------------------------------------------------------------- generators

const rule = "Generic stats.InvCDF on (a) rapid-generated user-defined piecewise CDFs (2-8 knots anywhere in +-1e6, total width " +
	"1e-3..1e5, optional jump at every knot, ramps or flat stretches, optional jump at the lower bound) and (b) built-ins without " +
	"their own quantile (TDist, BinomialDist, HypergeometicDist, UDist, Gaussian KDE), wrapped so that only CDF and Bounds are " +
	"visible and CDF calls are counted (budget 200000 per call); levels: uniform, every jump and plateau level exactly and one " +
	"ulp either side, 0, 1, outside [0,1]. Oracle = the definition: CDF(x+tau)>=y and CDF(x-tau)<y with tau=1e-9*max(1,|x|), " +
	"monotone in y, NaN outside, end-point rule at 0 and 1. Dispatch: NormalDist, DeltaDist and a stub must be answered by their " +
	"own methods bit-for-bit. Rand: draws equal InvCDF(y_i) on a scripted source (zeros injected), KS distance of 50000 draws " +
	"(thorough up to 1e6) below the DKW 1e-9 bound. Non-trivial: 0<y<1 and (jump or flat stretch present, or built-in). Later additions: discrete distributions (binomial, hypergeometric, U, user-defined lattices on s*N with steps 1e-3..1000) also handed over as DiscreteDist with PMF and Step visible; stubs that are discrete / lack Rand; scripted sources emitting zero words; user-defined continuous/piecewise distributions reporting infinite, half-infinite or overflowing Bounds."

func drawPW(t *rapid.T) *PW {
	n := rapid.IntRange(2, 8).Draw(t, "knots")
	var centre float64
	switch rapid.IntRange(0, 3).Draw(t, "centreKind") {
	case 0:
		centre = 0
	case 1:
		centre = rapid.Float64Range(-5, 5).Draw(t, "centre")
	default:
		centre = gen.Sign(t, "cs") * gen.LogUniform(t, 1, 1e6, "centreBig")
	}
	width := gen.LogUniform(t, 1e-3, 1e5, "width")
	wideStraddle := rapid.IntRange(0, 5).Draw(t, "wideStraddle") == 0
	if wideStraddle {
		// a wide support with both ends far from 0 and something happening close to 0: where
		// a tolerance taken relative to the ends of the support is far too coarse
		centre = 0
		width = gen.LogUniform(t, 1e4, 2e6, "wideWidth")
	}
	gaps := make([]float64, n-1)
	tot := 0.0
	for i := range gaps {
		gaps[i] = rapid.Float64Range(0.05, 1).Draw(t, "gap")
		tot += gaps[i]
	}
	p := &PW{Xs: make([]float64, n), Left: make([]float64, n), Right: make([]float64, n)}
	off := rapid.Float64Range(0, 1).Draw(t, "offset")
	if wideStraddle {
		off = 0.3 + 0.4*off
	}
	x := centre - width*off
	for i := 0; i < n; i++ {
		if i > 0 {
			nx := x + width*gaps[i-1]/tot
			if !(nx > x) {
				nx = math.Nextafter(x, math.Inf(1))
			}
			x = nx
		}
		p.Xs[i] = x
	}
	if wideStraddle { // move the first knot right of 0 close to 0
		for k := 1; k+1 < len(p.Xs); k++ {
			if p.Xs[k] > 0 {
				if s := gen.LogUniform(t, 1e-6, 50, "nearZeroKnot"); s < p.Xs[k] && s > p.Xs[k-1] {
					p.Xs[k] = s
				}
				break
			}
		}
	}
	// masses: jump at each knot, ramp on each segment; zero allowed
	mass := func(label string) float64 {
		switch rapid.IntRange(0, 5).Draw(t, label+".zero") {
		case 0, 1:
			return 0
		case 2:
			// a very light atom or ramp: the CDF rises by an ulp or a few of its value, in the
			// middle of what is otherwise a flat stretch
			return gen.LogUniform(t, 1e-17, 1e-9, label+".light")
		}
		return rapid.Float64Range(0.01, 1).Draw(t, label)
	}
	jumps := make([]float64, n)
	ramps := make([]float64, n-1)
	total := 0.0
	for i := range jumps {
		jumps[i] = mass("jump")
		total += jumps[i]
	}
	for i := range ramps {
		ramps[i] = mass("ramp")
		total += ramps[i]
	}
	if total == 0 {
		jumps[n-1], total = 1, 1
	}
	cum := 0.0
	for i := 0; i < n; i++ {
		p.Left[i] = cum / total
		cum += jumps[i]
		p.Right[i] = cum / total
		if i < n-1 {
			cum += ramps[i]
		}
	}
	p.Left[0] = 0
	p.Right[n-1] = 1
	for i := 0; i < n; i++ { // rounding may have produced a value above 1
		p.Left[i] = math.Min(p.Left[i], 1)
		p.Right[i] = math.Min(p.Right[i], 1)
	}
	return p
}

func drawYs(t *rapid.T, levels []float64) []ev.F {
	var ys []ev.F
	n := rapid.IntRange(1, 8).Draw(t, "ny")
	for i := 0; i < n; i++ {
		k := rapid.IntRange(0, 9).Draw(t, "ykind")
		switch {
		case k == 0:
			ys = append(ys, ev.F(rapid.SampledFrom([]float64{0, 1, -0.25, 1.25, -1e-300, 1 + 1e-15}).Draw(t, "yspecial")))
		case k <= 4 && len(levels) > 0:
			l := rapid.SampledFrom(levels).Draw(t, "level")
			switch rapid.IntRange(0, 2).Draw(t, "nudge") {
			case 1:
				l = math.Nextafter(l, 2)
			case 2:
				l = math.Nextafter(l, -1)
			}
			ys = append(ys, ev.F(l))
		case k == 5:
			ys = append(ys, ev.F(gen.LogUniform(t, 1e-12, 0.5, "ytiny")))
		case k == 6:
			ys = append(ys, ev.F(1-gen.LogUniform(t, 1e-12, 0.5, "ynear1")))
		default:
			ys = append(ys, ev.F(rapid.Float64Range(0, 1).Draw(t, "y")))
		}
	}
	return ys
}

func drawDist(t *rapid.T) *Case {
	c := &Case{}
	// rapid biases integer draws toward small values: the user-defined family comes first
	switch rapid.IntRange(0, 9).Draw(t, "distKind") {
	case 5:
		c.Kind = "tdist"
		c.Params = []float64{gen.LogUniform(t, 0.5, 1000, "V")}
	case 6:
		c.Kind = "binom"
		c.Params = []float64{float64(rapid.IntRange(1, 60).Draw(t, "N")), rapid.Float64Range(0.01, 0.99).Draw(t, "P")}
	case 7:
		c.Kind = "hyper"
		N := rapid.IntRange(2, 60).Draw(t, "N")
		c.Params = []float64{float64(N), float64(rapid.IntRange(1, N-1).Draw(t, "K")), float64(rapid.IntRange(1, N-1).Draw(t, "D"))}
	case 8:
		c.Kind = "udist"
		c.Params = []float64{float64(rapid.IntRange(1, 8).Draw(t, "N1")), float64(rapid.IntRange(1, 8).Draw(t, "N2"))}
	case 9:
		c.Kind = "kde"
		n := rapid.IntRange(1, 6).Draw(t, "n")
		centre := rapid.Float64Range(-1000, 1000).Draw(t, "centre")
		c.Params = []float64{gen.LogUniform(t, 0.05, 5, "bw")}
		for i := 0; i < n; i++ {
			c.Params = append(c.Params, centre+rapid.Float64Range(-3, 3).Draw(t, "x"))
		}
	case 4:
		// a user-defined lattice distribution: points s*k0 .. s*(k0+m-1), integer weights
		c.Kind = "lattice"
		c.Params = []float64{rapid.SampledFrom([]float64{2, 3, 1, 0.5, 1.5, 0.1, 0.25, 7, 10, 1e-3, 1000}).Draw(t, "step"),
			float64(rapid.SampledFrom([]int{0, 0, 1, 2, 3, 5, 8, 13, 40, 1000}).Draw(t, "k0"))}
		m := rapid.IntRange(1, 24).Draw(t, "m")
		for j := 0; j < m; j++ {
			wgt := rapid.IntRange(0, 5).Draw(t, "wgt")
			if (j == 0 || j == m-1) && wgt == 0 {
				wgt = 1
			}
			c.Params = append(c.Params, float64(wgt))
		}
	default:
		c.Kind = "pw"
		c.PW = drawPW(t)
	}
	if c.Kind == "binom" || c.Kind == "hyper" || c.Kind == "udist" || c.Kind == "lattice" {
		c.AsDiscrete = rapid.Bool().Draw(t, "asDiscrete")
	} else {
		c.ReportedBounds = rapid.SampledFrom([]string{"", "", "", "infinite", "upper-infinite", "huge", "lower-infinite", ""}).Draw(t, "reportedBounds")
	}
	return c
}

func levelsOf(c *Case) []float64 {
	var levels []float64
	switch c.Kind {
	case "pw":
		for i := range c.PW.Xs {
			levels = append(levels, c.PW.Left[i], c.PW.Right[i])
		}
	case "binom", "hyper", "udist":
		w, _ := build(c)
		for k := w.lo; k <= w.hi; k += 0.5 {
			levels = append(levels, w.cdf(k))
		}
	case "lattice":
		levels = append(levels, newLattice(c.Params).cum...)
	}
	var out []float64
	for _, l := range levels {
		if l > 0 && l < 1 {
			out = append(out, l)
		}
	}
	return out
}

func TestInvCDF(t *testing.T) {
	ev.Rule(rule)
	ev.Rapid(t, "c07-invcdf", 20000, 400000, func(rt *rapid.T) {
		c := drawDist(rt)
		c.Ys = drawYs(rt, levelsOf(c))
		checkInv.Run(rt, c)
	})
}

func TestDispatch(t *testing.T) {
	ev.Rule(rule)
	ev.Rapid(t, "c07-dispatch", 300, 10000, func(rt *rapid.T) {
		c := &DispatchCase{Mu: rapid.Float64Range(-1e6, 1e6).Draw(rt, "mu"), Sigma: gen.LogUniform(rt, 1e-6, 1e6, "sigma"),
			T: rapid.Float64Range(-1e6, 1e6).Draw(rt, "T"), Seed: int64(rapid.IntRange(1, 1<<30).Draw(rt, "seed"))}
		c.Ys = drawYs(rt, nil)
		checkDispatch.Run(rt, c)
	})
}

func TestRand(t *testing.T) {
	ev.Rule(rule)
	ev.Rapid(t, "c07-rand-exact", 1500, 20000, func(rt *rapid.T) {
		c := &RandCase{Dist: *drawDist(rt), Seed: int64(rapid.IntRange(1, 1<<30).Draw(rt, "seed")), Exact: 12}
		// scripted 63-bit values; 0 and multiples of 2^53 give y == 0
		n := rapid.IntRange(0, 6).Draw(rt, "nscript")
		for i := 0; i < n; i++ {
			switch rapid.IntRange(0, 3).Draw(rt, "skind") {
			case 0:
				c.Script = append(c.Script, 0)
			case 1:
				c.Script = append(c.Script, int64(rapid.IntRange(1, 1000).Draw(rt, "k"))<<53)
			case 2:
				c.Script = append(c.Script, 1) // smallest positive y
			default:
				c.Script = append(c.Script, int64(rapid.Uint64Range(0, 1<<62).Draw(rt, "v")))
			}
		}
		checkRand.Run(rt, c)
	})
	ev.Rapid(t, "c07-rand-ks", 30, 400, func(rt *rapid.T) {
		c := &RandCase{Dist: *drawDist(rt), Seed: int64(rapid.IntRange(1, 1<<30).Draw(rt, "seed")), Exact: 0, KS: 50000}
		if c.Dist.Kind != "pw" {
			c.KS = 5000 // the built-in CDFs are two orders of magnitude slower
		} else if ev.Thorough() && rapid.IntRange(0, 9).Draw(rt, "million") == 0 {
			c.KS = 1000000
		}
		checkRand.Run(rt, c)
	})
}
