// Package c11 decides property C11: QuantileCI bounds are valid order
// statistics with at least the stated confidence.
package c11

import (
	"fmt"
	"math"
	"math/big"
	"sort"
	"testing"

	"github.com/aclements/go-moremath/stats"
	"pgregory.net/rapid"

	"verifharness/internal/ev"
	"verifharness/internal/gen"
	"verifharness/internal/ref"
)

func TestMain(m *testing.M) { ev.Main(m, "C11") }

func TestReplay(t *testing.T) { ev.Replay(t) }

// Case: one (n,q) and a list of confidence levels (all > 0).
type Case struct {
	N  int       `json:"n"`
	Q  float64   `json:"q"`
	Cs []float64 `json:"cs"`
}

// binomial masses of Binomial(n,q) in 400-bit arithmetic
func masses(n int, q float64) []*big.Float {
	p := ref.B(q)
	r := ref.Sub(ref.BI(1), p)
	pp := make([]*big.Float, n+1)
	rr := make([]*big.Float, n+1)
	pp[0], rr[0] = ref.BI(1), ref.BI(1)
	for i := 1; i <= n; i++ {
		pp[i] = ref.Mul(pp[i-1], p)
		rr[i] = ref.Mul(rr[i-1], r)
	}
	out := make([]*big.Float, n+1)
	for k := 0; k <= n; k++ {
		c := new(big.Float).SetPrec(ref.Prec).SetInt(new(big.Int).Binomial(int64(n), int64(k)))
		out[k] = ref.Mul(c, ref.Mul(pp[k], rr[n-k]))
	}
	return out
}

const tolMass = 1e-12

func checkExact(c *Case) ev.Outcome {
	n, q := c.N, c.Q
	pm := masses(n, q)
	pmf := make([]float64, n+1)
	maxp := 0.0
	for k := range pm {
		pmf[k] = ref.F64(pm[k])
		if pmf[k] > maxp {
			maxp = pmf[k]
		}
	}
	mass := func(l, r int) float64 { // buckets l..r-1
		s := ref.BI(0)
		for k := l; k < r; k++ {
			if k >= 0 && k <= n {
				s = ref.Add(s, pm[k])
			}
		}
		return ref.F64(s)
	}
	cs := append([]float64(nil), c.Cs...)
	sort.Float64s(cs)
	// For q = 1/2 and n <= 20 every mass C(n,k)/2^n and every partial sum is an exactly
	// representable dyadic number and the library computes them without rounding, so
	// "reaches c" and "is needed to reach c" are decided sharply (no tolerance).
	tolNeed := tolMass
	if q == 0.5 && n <= 20 {
		tolNeed = 0
	}
	var prev *stats.QuantileCIResult
	nt := false
	for _, conf := range cs {
		res := stats.QuantileCI(n, q, conf)
		ev.AddCount("quantileci_calls", 1)
		key := fmt.Sprintf("QuantileCI(%d,%v,%v) = %+v", n, q, conf, res)
		if res.N != n || res.Quantile != q {
			return ev.Fail("%s: N/Quantile not echoed", key)
		}
		if !(0 <= res.LoOrder && res.LoOrder < res.HiOrder && res.HiOrder <= n+1) {
			return ev.Fail("%s: orders violate 0<=Lo<Hi<=n+1", key)
		}
		if conf >= 1 {
			if res.LoOrder != 0 || res.HiOrder != n+1 || res.Confidence != 1 {
				return ev.Fail("%s: c>=1 must give the whole range with Confidence 1", key)
			}
			continue
		}
		m := mass(res.LoOrder, res.HiOrder)
		if !(math.Abs(m-res.Confidence) <= tolMass) {
			return ev.Fail("%s: Confidence differs from the exact binomial mass %.17g of its buckets", key, m)
		}
		ev.MaxErr("confidence-vs-mass", math.Abs(m-res.Confidence)/tolMass)
		if m < conf-tolNeed {
			return ev.Fail("%s: exact mass %.17g is below the requested confidence", key, m)
		}
		hasMode := false
		for k := res.LoOrder; k < res.HiOrder; k++ {
			if k <= n && pmf[k] >= maxp*(1-1e-12) {
				hasMode = true
			}
		}
		if !hasMode {
			return ev.Fail("%s: interval does not contain a mode of Binomial(n,q)", key)
		}
		if res.HiOrder-res.LoOrder > 1 {
			if mass(res.LoOrder+1, res.HiOrder) >= conf+tolNeed && mass(res.LoOrder, res.HiOrder-1) >= conf+tolNeed {
				return ev.Fail("%s: neither end bucket is needed to reach the confidence", key)
			}
		}
		if res.Ambiguous {
			if res.HiOrder+1 > n+1 {
				return ev.Fail("%s: Ambiguous but the shifted interval leaves the range", key)
			}
			if m2 := mass(res.LoOrder+1, res.HiOrder+1); !(math.Abs(m2-m) <= tolMass) {
				return ev.Fail("%s: Ambiguous but the shifted interval has mass %.17g, not %.17g", key, m2, m)
			}
		}
		if prev != nil && !(res.LoOrder <= prev.LoOrder && res.HiOrder >= prev.HiOrder) {
			return ev.Fail("%s: not nested around the interval for the previous (smaller) level %+v", key, *prev)
		}
		r2 := res
		prev = &r2
		if q > 0 && q < 1 && res.HiOrder-res.LoOrder > 1 && !(res.LoOrder == 0 && res.HiOrder == n+1) {
			nt = true
		}
	}
	return ev.OK(nt, "exact-branch")
}

func checkApprox(c *Case) ev.Outcome {
	n, q := c.N, c.Q
	mu := float64(n) * q
	sigma := math.Sqrt(float64(n) * q * (1 - q))
	ncdf := func(x float64) float64 {
		if sigma == 0 {
			if x >= mu {
				return 1
			}
			return 0
		}
		return ref.NormCDF((x - mu) / sigma)
	}
	nt := false
	for _, conf := range c.Cs {
		res := stats.QuantileCI(n, q, conf)
		ev.AddCount("quantileci_calls", 1)
		key := fmt.Sprintf("QuantileCI(%d,%v,%v) = %+v", n, q, conf, res)
		if res.N != n || res.Quantile != q {
			return ev.Fail("%s: N/Quantile not echoed", key)
		}
		if !(0 <= res.LoOrder && res.LoOrder < res.HiOrder && res.HiOrder <= n+1) {
			return ev.Fail("%s: orders violate 0<=Lo<Hi<=n+1", key)
		}
		if conf >= 1 {
			if res.LoOrder != 0 || res.HiOrder != n+1 || res.Confidence != 1 {
				return ev.Fail("%s: c>=1 must give the whole range with Confidence 1", key)
			}
			continue
		}
		if res.Confidence < conf-1e-12 {
			return ev.Fail("%s: Confidence below the requested level", key)
		}
		alpha := (1 - conf) / 2
		l1, r1 := mu, mu
		if sigma != 0 {
			z := ref.NormInv(alpha)
			l1, r1 = mu+z*sigma, mu-z*sigma
		}
		slack := 1e-9 * (1 + sigma)
		lo, hi := float64(res.LoOrder)-0.5, float64(res.HiOrder)-0.5
		el := math.Floor(l1-0.5) + 0.5 // largest half-integer <= l1
		er := math.Ceil(r1-0.5) + 0.5  // smallest half-integer >= r1
		elc, erc := math.Max(el, -0.5), math.Min(er, float64(n)+0.5)
		nearL := math.Abs((l1-0.5)-math.Round(l1-0.5)) < slack
		nearR := math.Abs((r1-0.5)-math.Round(r1-0.5)) < slack
		if !(lo == elc || (nearL && math.Abs(lo-elc) <= 1)) {
			return ev.Fail("%s: lower band end %v, central interval starts at %v so want %v", key, lo, l1, elc)
		}
		biased := false
		if !(hi == erc || (nearR && math.Abs(hi-erc) <= 1)) {
			if res.Ambiguous && (hi == math.Min(er-1, float64(n)+0.5) || (nearR && math.Abs(hi-math.Min(er-1, float64(n)+0.5)) <= 1)) {
				biased = true
			} else {
				return ev.Fail("%s: upper band end %v, central interval ends at %v so want %v (or one lower with Ambiguous)", key, hi, r1, erc)
			}
		}
		if res.Ambiguous && !biased && hi == erc && !nearR {
			// Ambiguous is only set together with the lowered upper end
			if hi != math.Min(er-1, float64(n)+0.5) {
				return ev.Fail("%s: Ambiguous set although the upper end was not lowered", key)
			}
		}
		// Confidence = normal mass of the band before clamping
		if res.LoOrder == 0 && res.HiOrder == n+1 {
			if res.Confidence != 1 {
				return ev.Fail("%s: the band covers everything, Confidence must be 1", key)
			}
		} else if !nearL && !nearR {
			bl, br := el, er
			if res.Ambiguous {
				br = er - 1
			}
			m := ncdf(br) - ncdf(bl)
			if !(math.Abs(m-res.Confidence) <= 1e-9) {
				return ev.Fail("%s: Confidence differs from the normal mass %.15g of the band [%v,%v]", key, m, bl, br)
			}
			ev.MaxErr("confidence-vs-normal-mass", math.Abs(m-res.Confidence)/1e-9)
		}
		if q > 0 && q < 1 && res.HiOrder-res.LoOrder > 1 && !(res.LoOrder == 0 && res.HiOrder == n+1) {
			nt = true
		}
	}
	return ev.OK(nt, "approx-branch")
}

var checkCI = ev.Register("quantileci", func(c *Case) ev.Outcome {
	if c.N < 1 || !(c.Q >= 0 && c.Q <= 1) {
		return ev.Fail("harness error: parameters")
	}
	for _, conf := range c.Cs {
		if !(conf > 0) {
			return ev.Fail("harness error: confidence levels must be positive (a level of 0 is outside the property)")
		}
	}
	if c.N <= 30 {
		return checkExact(c)
	}
	return checkApprox(c)
})

// greedyLevels returns every cumulative mass reached by the greedy outward
// accumulation from the lower mode (exact arithmetic), with its ulp neighbours.
func greedyLevels(n int, q float64) []float64 {
	pm := masses(n, q)
	x := int(math.Ceil(float64(n+1)*q) - 1)
	if q == 0 {
		x = 0
	}
	if x > n {
		x = n
	}
	if x < 0 {
		x = 0
	}
	get := func(k int) *big.Float {
		if k < 0 || k > n {
			return ref.BI(0)
		}
		return pm[k]
	}
	l, r := x, x+1
	acc := ref.Add(ref.BI(0), get(x))
	var out []float64
	add := func(v float64) {
		for _, y := range []float64{v, math.Nextafter(v, 2), math.Nextafter(v, -1)} {
			if y > 0 && y < 1 {
				out = append(out, y)
			}
		}
	}
	add(ref.F64(acc))
	for l > 0 || r <= n {
		lp, rp := get(l-1), get(r)
		if lp.Sign() == 0 && rp.Sign() == 0 {
			break
		}
		if lp.Cmp(rp) >= 0 {
			acc = ref.Add(acc, lp)
			l--
		} else {
			acc = ref.Add(acc, rp)
			r++
		}
		add(ref.F64(acc))
	}
	return out
}

func gridCs() []float64 {
	var cs []float64
	for i := 1; i <= 200; i++ {
		cs = append(cs, float64(i)/200)
	}
	return append(cs, 1e-12, 1e-9, 1e-3, 0.999, 0.9999, 1-1e-6, 1-1e-12, 1, 1.5)
}

func gridQs() []float64 {
	qs := []float64{1e-9, 1 - 1e-9}
	for i := 0; i <= 40; i++ {
		qs = append(qs, float64(i)/40)
	}
	return qs
}

const rule = "QuantileCI: exhaustive grid n=1..30 x q in {i/40}+{1e-9,1-1e-9} x c in {i/200}+{1e-12,1e-9,1e-3,.999,.9999,1-1e-6,1-1e-12,1,1.5} " +
	"+ every cumulative mass of the exact greedy accumulation and its ulp neighbours (one case per (n,q), all levels inside it; " +
	"the number of QuantileCI calls is in notes.quantileci_calls), judged by validity predicates from exact Binomial(n,q) masses " +
	"(400-bit): orders in range, Confidence = exact mass (1e-12) >= c, contains a mode, an end bucket is needed, nesting in c, " +
	"Ambiguous => shifted interval has equal mass. n>30 (31,32,33,40,50,64,100,101,500,1000,2000 and random up to 2000): band ends " +
	"vs an independent normal quantile (Newton on erfc) rounded outward to half-integers and clamped, optional lowered upper end " +
	"with Ambiguous, Confidence = normal mass of the unclamped band (1e-9), 1 when everything. c<=0 is outside the property. " +
	"SampleCI on random unsorted samples with ties. Non-trivial: 0<q<1, c<1, interval neither one bucket nor everything."

func TestGrid(t *testing.T) {
	if ev.Replaying() {
		return
	}
	ev.Rule(rule)
	var cases []*Case
	for n := 1; n <= 30; n++ {
		for _, q := range gridQs() {
			c := &Case{N: n, Q: q, Cs: append(gridCs(), greedyLevels(n, q)...)}
			cases = append(cases, c)
		}
	}
	for _, n := range []int{31, 32, 33, 40, 50, 64, 100, 101, 500, 1000, 2000} {
		for _, q := range gridQs() {
			cases = append(cases, &Case{N: n, Q: q, Cs: gridCs()})
		}
	}
	ev.Parallel(t, len(cases), func(tb ev.TB, i int) {
		if ev.MyShare(i) {
			checkCI.RunEnum(tb, cases[i])
		}
	})
	ev.Exhaustive("the (n,q,c) grid described in the rule, n=1..30 complete with all greedy cumulative levels")
}

// TestNearTies: q at and within 1e-12..1e-4 (relative) of the values at which two buckets of
// Binomial(n,q) have equal mass - where the accumulation order and the Ambiguous flag are
// decided by a comparison of nearly equal floats - with every cumulative level as confidence.
func TestNearTies(t *testing.T) {
	ev.Rule(rule)
	ev.Rapid(t, "c11-nearties", 1500, 40000, func(rt *rapid.T) {
		n := rapid.IntRange(2, 30).Draw(rt, "n")
		j := rapid.IntRange(0, n-1).Draw(rt, "j")
		k := rapid.IntRange(j+1, n).Draw(rt, "k")
		// PMF(j) = PMF(k)  <=>  (q/(1-q))^(k-j) = C(n,j)/C(n,k)
		lr := (lchoose(n, j) - lchoose(n, k)) / float64(k-j)
		r := math.Exp(lr)
		q := r / (1 + r)
		switch rapid.IntRange(0, 3).Draw(rt, "off") {
		case 1:
			q *= 1 + gen.Sign(rt, "offSign")*gen.LogUniform(rt, 1e-12, 1e-4, "offBy")
		case 2:
			q = math.Nextafter(q, rapid.SampledFrom([]float64{0, 1}).Draw(rt, "ulpDir"))
		case 3:
			q = math.Round(q*1e7) / 1e7 // the tie value to seven digits
		}
		if !(q > 0 && q < 1) {
			q = 0.5
		}
		c := &Case{N: n, Q: q, Cs: greedyLevels(n, q)}
		checkCI.Run(rt, c)
	})
}

func lchoose(n, k int) float64 {
	a, _ := math.Lgamma(float64(n + 1))
	b, _ := math.Lgamma(float64(k + 1))
	c, _ := math.Lgamma(float64(n - k + 1))
	return a - b - c
}

func TestRandom(t *testing.T) {
	ev.Rule(rule)
	ev.Rapid(t, "c11-random", 10000, 320000, func(rt *rapid.T) {
		c := &Case{}
		switch rapid.IntRange(0, 3).Draw(rt, "nkind") {
		case 0:
			c.N = rapid.IntRange(1, 30).Draw(rt, "nsmall")
		case 1:
			c.N = rapid.IntRange(28, 34).Draw(rt, "nthreshold")
		default:
			c.N = rapid.IntRange(31, 2000).Draw(rt, "n")
		}
		switch rapid.IntRange(0, 3).Draw(rt, "qkind") {
		case 0:
			c.Q = rapid.SampledFrom([]float64{0.5, 0, 1, 0.25, 0.9, 0.99, 0.01}).Draw(rt, "qspecial")
		case 1:
			c.Q = gen.LogUniform(rt, 1e-9, 0.5, "qtiny")
		default:
			c.Q = rapid.Float64Range(0, 1).Draw(rt, "q")
		}
		k := rapid.IntRange(1, 8).Draw(rt, "ncs")
		for i := 0; i < k; i++ {
			switch rapid.IntRange(0, 4).Draw(rt, "ckind") {
			case 4:
				// the last floats below 1 (1-c of a few ulp: 1-alpha rounds to 1) and the
				// first above 0
				if rapid.Bool().Draw(rt, "cend") {
					c.Cs = append(c.Cs, 1-float64(rapid.IntRange(1, 16).Draw(rt, "culps"))*0x1p-53)
				} else {
					c.Cs = append(c.Cs, rapid.SampledFrom([]float64{5e-324, 1e-300, 1e-17, 0x1p-53}).Draw(rt, "czero"))
				}
			case 0:
				c.Cs = append(c.Cs, 1-gen.LogUniform(rt, 1e-12, 0.5, "cnear1"))
			case 1:
				c.Cs = append(c.Cs, gen.LogUniform(rt, 1e-12, 0.5, "ctiny"))
			default:
				c.Cs = append(c.Cs, rapid.Float64Range(0.001, 1).Draw(rt, "c"))
			}
		}
		checkCI.Run(rt, c)
	})
}

// ---------------------------------------------------------------- SampleCI

type SCase struct {
	Xs []float64 `json:"xs"`
	Q  float64   `json:"q"`
	C  float64   `json:"c"`
}

var checkSampleCI = ev.Register("sampleci", func(c *SCase) ev.Outcome {
	n := len(c.Xs)
	if n < 1 {
		return ev.Fail("harness error: empty sample")
	}
	res := stats.QuantileCI(n, c.Q, c.C)
	xs := append(make([]float64, 0, n+2), c.Xs...)
	s := stats.Sample{Xs: xs}
	qv, lo, hi := res.SampleCI(s)
	for i := range xs {
		if math.Float64bits(xs[i]) != math.Float64bits(c.Xs[i]) {
			return ev.Fail("SampleCI modified the sample: %v -> %v", c.Xs, xs)
		}
	}
	asc := append([]float64(nil), c.Xs...)
	sort.Float64s(asc)
	wantQ := stats.Sample{Xs: append([]float64(nil), c.Xs...)}.Quantile(c.Q)
	wantLo, wantHi := math.Inf(-1), math.Inf(1)
	if res.LoOrder >= 1 {
		wantLo = asc[res.LoOrder-1]
	}
	if res.HiOrder <= n {
		wantHi = asc[res.HiOrder-1]
	}
	if qv != wantQ || lo != wantLo || hi != wantHi {
		return ev.Fail("SampleCI = (%v,%v,%v), want (Quantile(q), x[%d], x[%d]) = (%v,%v,%v)", qv, lo, hi, res.LoOrder, res.HiOrder, wantQ, wantLo, wantHi)
	}
	// the Sorted fast path must agree
	q2, l2, h2 := res.SampleCI(stats.Sample{Xs: asc, Sorted: true})
	if q2 != qv || l2 != lo || h2 != hi {
		return ev.Fail("SampleCI on the pre-sorted sample differs: (%v,%v,%v) vs (%v,%v,%v)", q2, l2, h2, qv, lo, hi)
	}
	return ev.OK(n >= 3 && !sort.Float64sAreSorted(c.Xs), "sampleci")
})

func TestSampleCI(t *testing.T) {
	ev.Rule(rule)
	ev.Rapid(t, "c11-sampleci", 5000, 80000, func(rt *rapid.T) {
		n := rapid.IntRange(1, 60).Draw(rt, "n")
		levels := rapid.IntRange(1, n+2).Draw(rt, "levels")
		vals := gen.Increasing(rt, levels, rapid.IntRange(0, 2).Draw(rt, "style"), "vals")
		c := &SCase{Q: rapid.Float64Range(0, 1).Draw(rt, "q"), C: rapid.Float64Range(0.01, 1.05).Draw(rt, "c")}
		for i := 0; i < n; i++ {
			c.Xs = append(c.Xs, vals[rapid.IntRange(0, levels-1).Draw(rt, "lvl")])
		}
		checkSampleCI.Run(rt, c)
	})
}
