// Package c01 decides property C01: the Mann-Whitney exact test reports U as
// the pair count and P as the exact permutation tail.
package c01

import (
	"fmt"
	"math"
	"os"
	"sort"
	"sync"
	"testing"

	"github.com/aclements/go-moremath/stats"
	"pgregory.net/rapid"

	"verifharness/internal/ev"
	"verifharness/internal/gen"
	"verifharness/internal/ref"
)

func TestMain(m *testing.M) {
	// C01 is stated at the default limits.
	stats.MannWhitneyExactLimit = 50
	stats.MannWhitneyTiesExactLimit = 25
	ev.Main(m, "C01")
}

func TestReplay(t *testing.T) { ev.Replay(t) }

// Case is one call of MannWhitneyUTest.
type Case struct {
	X1  []float64 `json:"x1"`
	X2  []float64 `json:"x2"`
	Alt int       `json:"alt"` // -1 less, 0 differs, 1 greater
	// Limits, if set, are installed in MannWhitneyExactLimit and MannWhitneyTiesExactLimit for
	// the call (and restored): the exact method applies whenever the sizes are within the limit
	// that applies to the data, whatever the other limit is.
	Limits *[2]int `json:"limits,omitempty"`
}

const SigLegacy = "mwu-two-sided-ties-legacy"

const tolP = 1e-9

// tieVector returns the tie counts of the pooled values in ascending order.
func tieVector(x1, x2 []float64) (T []int, ties bool) {
	all := append(append([]float64(nil), x1...), x2...)
	sort.Float64s(all)
	for i := 0; i < len(all); {
		j := i
		for j < len(all) && all[j] == all[i] {
			j++
		}
		T = append(T, j-i)
		if j-i > 1 {
			ties = true
		}
		i = j
	}
	return
}

var (
	cacheMu sync.Mutex
	cache   = map[string]*ref.UCounts{}
)

func exact(n1, n2 int, T []int) *ref.UCounts {
	key := fmt.Sprint(n1, n2, T)
	cacheMu.Lock()
	u, ok := cache[key]
	cacheMu.Unlock()
	if ok {
		return u
	}
	u = ref.UExact(n1, n2, T)
	cacheMu.Lock()
	if len(cache) > 4096 {
		cache = map[string]*ref.UCounts{}
	}
	cache[key] = u
	cacheMu.Unlock()
	return u
}

// Expected returns the exact P for the alternative and the value the legacy
// two-sided expression would give, from the reference distribution.
func Expected(u *ref.UCounts, w int, alt int) (want, legacy float64) {
	le, ge := u.PLE(w), u.PGE(w)
	switch alt {
	case -1:
		return le, le
	case 1:
		return ge, ge
	}
	want = math.Min(1, 2*math.Min(le, ge))
	wmax := 2 * u.N1 * u.N2
	if 2*w == wmax { // U1 == U2
		legacy = 1
	} else {
		ws := w
		if wmax-w < ws {
			ws = wmax - w
		}
		legacy = 2 * u.PLE(ws)
	}
	return
}

var checkMWU = ev.Register("mwu-exact", func(c *Case) ev.Outcome {
	n1, n2 := len(c.X1), len(c.X2)
	T, ties := tieVector(c.X1, c.X2)
	if n1 == 0 || n2 == 0 || len(T) < 2 {
		return ev.Fail("harness error: case outside the property's domain")
	}
	lim := 50
	if ties {
		lim = 25
	}
	if n1 > lim || n2 > lim {
		return ev.Fail("harness error: sizes beyond the exact limits")
	}
	if c.Limits != nil {
		applies := c.Limits[0]
		if ties {
			applies = c.Limits[1]
		}
		if n1 > applies || n2 > applies {
			return ev.Fail("harness error: sizes beyond the installed limit")
		}
		oe, ot := stats.MannWhitneyExactLimit, stats.MannWhitneyTiesExactLimit
		stats.MannWhitneyExactLimit, stats.MannWhitneyTiesExactLimit = c.Limits[0], c.Limits[1]
		defer func() { stats.MannWhitneyExactLimit, stats.MannWhitneyTiesExactLimit = oe, ot }()
	}
	if ties {
		// first the null distributions of some "sibling" tie vectors - the same counts in another
		// order, the same decimal digits grouped differently - are evaluated at the very points the
		// test is about to use: whatever that leaves behind must not change the answer
		wU := float64(ref.PairCountU2(c.X1, c.X2)) / 2
		for _, sib := range siblingVectors(T) {
			d := stats.UDist{N1: n1, N2: n2, T: sib}
			for _, u := range []float64{wU, wU - 0.5, float64(n1*n2) - wU, float64(n1*n2) - wU - 0.5} {
				d.CDF(u)
			}
		}
	}
	x1 := append([]float64(nil), c.X1...)
	x2 := append([]float64(nil), c.X2...)
	res, err := stats.MannWhitneyUTest(x1, x2, stats.LocationHypothesis(c.Alt))
	if err != nil {
		return ev.Fail("unexpected error %v", err)
	}
	if res == nil {
		return ev.Fail("nil result without error")
	}
	if res.N1 != n1 || res.N2 != n2 || int(res.AltHypothesis) != c.Alt {
		return ev.Fail("N1,N2,Alt = %d,%d,%v; want %d,%d,%d", res.N1, res.N2, res.AltHypothesis, n1, n2, c.Alt)
	}
	w := ref.PairCountU2(c.X1, c.X2)
	if res.U != float64(w)/2 {
		return ev.Fail("U = %v, pair count gives %v", res.U, float64(w)/2)
	}
	u := exact(n1, n2, T)
	want, legacy := Expected(u, w, c.Alt)

	classes := []string{"alt=" + fmt.Sprint(c.Alt)}
	if ties {
		classes = append(classes, "ties")
		if len(T) == 2 {
			classes = append(classes, "two-valued")
		}
		if u.Attainable(w - 1) {
			classes = append(classes, "mass-at-U-0.5")
		}
		pz, nz := false, false
		for _, v := range append(append([]float64(nil), c.X1...), c.X2...) {
			if v == 0 {
				pz, nz = pz || !math.Signbit(v), nz || math.Signbit(v)
			}
		}
		if pz && nz {
			classes = append(classes, "zeros-of-both-signs")
		}
		if !symmetric(T) {
			classes = append(classes, "asymmetric-T")
		}
	} else {
		classes = append(classes, "untied")
	}
	if n1 == lim || n2 == lim {
		classes = append(classes, "at-limit")
	}
	nt := n1 >= 2 && n2 >= 2 && w > 0 && w < 2*n1*n2

	d := math.Abs(res.P - want)
	if !(d <= tolP) { // also catches NaN
		if c.Alt == 0 && ties && math.Abs(res.P-legacy) <= tolP {
			return ev.Outcome{NT: nt, Classes: append(classes, "known-legacy"), Known: SigLegacy}
		}
		return ev.Fail("P = %.12g, exact permutation tail = %.12g (|diff| %.3g; legacy two-sided expression would be %.12g); U=%v T=%v",
			res.P, want, d, legacy, res.U, T)
	}
	ev.MaxErr("P", d/tolP)
	return ev.Outcome{NT: nt, Classes: classes}
})

// siblingVectors returns tie vectors with the same total that a careless cache key would
// confuse with T: reversed, rotated, and with the decimal digits of the counts regrouped.
func siblingVectors(T []int) [][]int {
	var out [][]int
	add := func(b []int) {
		sum, sumT := 0, 0
		for _, x := range b {
			if x < 1 {
				return
			}
			sum += x
		}
		for _, x := range T {
			sumT += x
		}
		if sum == sumT && len(b) >= 2 && fmt.Sprint(b) != fmt.Sprint(T) {
			out = append(out, b)
		}
	}
	rev := make([]int, len(T))
	for i, x := range T {
		rev[len(T)-1-i] = x
	}
	add(rev)
	add(append(append([]int(nil), T[1:]...), T[0]))
	digits := ""
	for _, x := range T {
		digits += fmt.Sprint(x)
	}
	// regroup: pair up digits from the left / from the right, and all single
	for mode := 0; mode < 3; mode++ {
		var b []int
		ds := digits
		for len(ds) > 0 {
			l := 1
			if mode == 0 && len(ds) >= 2 && ds[0] != '0' {
				l = 2
			}
			if mode == 1 && len(ds) >= 3 && ds[0] != '0' && len(b) == 0 {
				l = 2
			}
			v := 0
			fmt.Sscan(ds[:l], &v)
			b = append(b, v)
			ds = ds[l:]
			if mode == 0 { // alternate: two digits, then one
				mode = 3
			} else if mode == 3 {
				mode = 0
			}
		}
		if mode == 3 {
			mode = 0
		}
		add(b)
	}
	return out
}

func symmetric(T []int) bool {
	for i, j := 0, len(T)-1; i < j; i, j = i+1, j-1 {
		if T[i] != T[j] {
			return false
		}
	}
	return true
}

const rule = "MannWhitneyUTest at the default limits vs pair-count U and an exact 128-bit-integer null distribution " +
	"(DP over tie groups; anchored to literal subset enumeration for N<=10). Exhaustive part: every tie vector " +
	"(composition of N into >=2 parts), every allocation of each tie group to the samples with both non-empty, all " +
	"three alternatives, values = rank indices in scrambled order. Random part: rapid, sizes up to 50+50 untied and " +
	"25+25 tied, five tie styles, five value styles, shuffled. Non-trivial: n1,n2>=2 and 0<U<n1*n2; distinct = " +
	"different canonical JSON of (x1,x2,alt). Later additions: separated samples, limits other than the defaults, sibling tie vectors evaluated first, one tie group made of zeros of both signs."

// TestExhaustive enumerates every tie vector and every split for small N.
func TestExhaustive(t *testing.T) {
	if ev.Replaying() {
		return
	}
	ev.Rule(rule)
	maxN := 9
	if ev.Thorough() {
		maxN = 12
	}
	if s := os.Getenv("VERIF_C01_MAXN"); s != "" {
		fmt.Sscan(s, &maxN)
	}
	// collect all compositions first so that they can be dealt to workers / shards
	var comps [][]int
	var rec func(rest int, T []int)
	rec = func(rest int, T []int) {
		if rest == 0 {
			if len(T) >= 2 {
				comps = append(comps, append([]int(nil), T...))
			}
			return
		}
		for p := 1; p <= rest; p++ {
			rec(rest-p, append(T, p))
		}
	}
	for N := 2; N <= maxN; N++ {
		rec(N, nil)
	}
	ev.Parallel(t, len(comps), func(tb ev.TB, i int) {
		if !ev.MyShare(i) {
			return
		}
		T := comps[i]
		r := make([]int, len(T))
		var alloc func(j int)
		alloc = func(j int) {
			if j == len(T) {
				var x1, x2 []float64
				for g, tg := range T {
					for k := 0; k < tg; k++ {
						if k < r[g] {
							x1 = append(x1, float64(g))
						} else {
							x2 = append(x2, float64(g))
						}
					}
				}
				if len(x1) == 0 || len(x2) == 0 {
					return
				}
				x1, x2 = gen.PseudoShuffle(x1), gen.PseudoShuffle(x2)
				for alt := -1; alt <= 1; alt++ {
					checkMWU.RunEnum(tb, &Case{X1: x1, X2: x2, Alt: alt})
				}
				return
			}
			for r[j] = 0; r[j] <= T[j]; r[j]++ {
				alloc(j + 1)
			}
		}
		alloc(0)
	})
	ev.Exhaustive(fmt.Sprintf("all tie vectors x allocations x alternatives with n1+n2 <= %d", maxN))
}

// drawCase is the rapid generator.
func drawCase(t *rapid.T) *Case { return drawCaseOpt(t, false) }

// drawCaseOpt: with separated set, the sizes are large enough for tails below 1e-6 and the
// samples are (nearly) separated.
func drawCaseOpt(t *rapid.T, separated bool) *Case {
	tieStyle := rapid.SampledFrom([]int{0, 0, 1, 2, 3, 4, 4}).Draw(t, "tieStyle")
	lim := 25
	if tieStyle == 0 {
		lim = 50
	}
	var n1, n2 int
	sizes := []string{"tiny", "tiny", "small", "small", "one-sided", "mid", "limit"}
	if separated {
		sizes = []string{"mid", "mid", "limit"}
	}
	switch rapid.SampledFrom(sizes).Draw(t, "size") {
	case "tiny":
		n1, n2 = rapid.IntRange(1, 4).Draw(t, "n1"), rapid.IntRange(1, 4).Draw(t, "n2")
	case "small":
		n1, n2 = rapid.IntRange(1, 10).Draw(t, "n1"), rapid.IntRange(1, 10).Draw(t, "n2")
	case "one-sided":
		n1, n2 = 1, rapid.IntRange(1, lim).Draw(t, "n2")
		if rapid.Bool().Draw(t, "flip") {
			n1, n2 = n2, n1
		}
	case "mid":
		n1, n2 = rapid.IntRange(1, lim).Draw(t, "n1"), rapid.IntRange(1, lim).Draw(t, "n2")
	default:
		n1, n2 = lim, rapid.IntRange(1, lim).Draw(t, "n2")
		if rapid.Bool().Draw(t, "both") {
			n2 = lim
		}
		if rapid.Bool().Draw(t, "flip") {
			n1, n2 = n2, n1
		}
	}
	N := n1 + n2
	T := gen.Composition(t, N, tieStyle, "T")
	if len(T) < 2 { // all equal is outside the domain: split off one value
		T = []int{N - 1, 1}
		if rapid.Bool().Draw(t, "which") {
			T = []int{1, N - 1}
		}
	}
	ties := false
	for _, x := range T {
		if x > 1 {
			ties = true
		}
	}
	if ties && (n1 > 25 || n2 > 25) {
		// a tied composition with one sample above the tied limit is outside C01
		if n1 > 25 {
			n1 = 25
		}
		if n2 > 25 {
			n2 = 25
		}
		N = n1 + n2
		T = gen.Composition(t, N, tieStyle, "T2")
		if len(T) < 2 {
			T = []int{N - 1, 1}
		}
	}
	vals := gen.Increasing(t, len(T), rapid.IntRange(0, 4).Draw(t, "valStyle"), "vals")
	// in a quarter of the cases one tie group is made of zeros of both signs: equal as numbers
	// (one group, half a pair each), different as bit patterns
	zeroGroup, negZeros := -1, 0
	if rapid.IntRange(0, 3).Draw(t, "signedZeros") == 0 {
		var groups []int
		for g, tg := range T {
			if tg >= 2 {
				groups = append(groups, g)
			}
		}
		if len(groups) > 0 {
			g := rapid.SampledFrom(groups).Draw(t, "zeroGroup")
			if v := gen.SignedZeros(vals, g, g); v != nil {
				vals, zeroGroup = v, g
				negZeros = rapid.IntRange(1, T[g]-1).Draw(t, "negZeros")
			}
		}
	}
	pooled := make([]float64, 0, N)
	for g, tg := range T {
		for k := 0; k < tg; k++ {
			v := vals[g]
			if g == zeroGroup && k >= negZeros {
				v = 0 // vals[g] is -0
			}
			pooled = append(pooled, v)
		}
	}
	// choose which n1 of the pooled values form sample 1
	perm := gen.Perm(t, N, "split")
	if sep := rapid.IntRange(0, 3).Draw(t, "separated"); (sep == 0 || separated) && N >= 4 {
		// (nearly) separated samples: sample 1 takes the largest (or smallest) values, up to a
		// few exchanges - U near an end of its range, where the tails are tiny
		for i := range perm {
			perm[i] = N - 1 - i
		}
		if rapid.Bool().Draw(t, "lowEnd") {
			for i := range perm {
				perm[i] = i
			}
		}
		for k := rapid.IntRange(0, 4).Draw(t, "exchanges"); k > 0; k-- {
			i, j := rapid.IntRange(0, n1-1).Draw(t, "xi"), rapid.IntRange(n1, N-1).Draw(t, "xj")
			if i < N && j < N {
				perm[i], perm[j] = perm[j], perm[i]
			}
		}
	}
	c := &Case{Alt: rapid.IntRange(-1, 1).Draw(t, "alt")}
	for i, p := range perm {
		if i < n1 {
			c.X1 = append(c.X1, pooled[p])
		} else {
			c.X2 = append(c.X2, pooled[p])
		}
	}
	return c
}

// TestBigGroups: pooled data with one large tie group of every size (up to what the tied
// limit allows) between a few small groups, split about evenly.
func TestBigGroups(t *testing.T) {
	if ev.Replaying() {
		return
	}
	ev.Rule(rule)
	var cases []*Case
	small := [][]int{{}, {1, 1}, {2}, {1, 2}}
	if !ev.Thorough() {
		small = [][]int{{}, {1, 1}, {2}}
	}
	for g := 2; g <= 48; g++ {
		for _, before := range small {
			for _, after := range small {
				T := append(append(append([]int{}, before...), g), after...)
				if len(T) < 2 {
					continue
				}
				N := 0
				for _, x := range T {
					N += x
				}
				if N > 50 {
					continue
				}
				n1 := N / 2
				// deal the pooled values alternately, so that the big group is shared about evenly
				var x1, x2 []float64
				i := 0
				for gi, tg := range T {
					for k := 0; k < tg; k++ {
						if i%2 == 0 && len(x1) < n1 || len(x2) >= N-n1 {
							x1 = append(x1, float64(gi))
						} else {
							x2 = append(x2, float64(gi))
						}
						i++
					}
				}
				if len(x1) == 0 || len(x2) == 0 || len(x1) > 25 || len(x2) > 25 {
					continue
				}
				for alt := -1; alt <= 1; alt++ {
					cases = append(cases, &Case{X1: gen.PseudoShuffle(x1), X2: gen.PseudoShuffle(x2), Alt: alt})
				}
			}
		}
	}
	ev.Parallel(t, len(cases), func(tb ev.TB, i int) {
		if ev.MyShare(i) {
			checkMWU.RunEnum(tb, cases[i])
		}
	})
	ev.Exhaustive(fmt.Sprintf("pooled samples with one big tie group of every size 2..48 between small groups (%d calls)", len(cases)))
}

func TestRandom(t *testing.T) {
	ev.Rule(rule)
	ev.Rapid(t, "c01-random", 2000, 24000, func(rt *rapid.T) {
		c := drawCase(rt)
		if rapid.IntRange(0, 3).Draw(rt, "otherLimits") == 0 {
			// the limit that applies is just large enough (or generous); the other one is anything,
			// in particular smaller than the sizes, and the untied limit may lie below the tied one
			_, ties := tieVector(c.X1, c.X2)
			m := len(c.X1)
			if len(c.X2) > m {
				m = len(c.X2)
			}
			own := rapid.SampledFrom([]int{m, m + 1, 1000}).Draw(rt, "ownLimit")
			other := rapid.SampledFrom([]int{0, m - 1, m / 2, m, 1000}).Draw(rt, "otherLimit")
			if other < 0 {
				other = 0
			}
			if ties {
				c.Limits = &[2]int{other, own}
			} else {
				c.Limits = &[2]int{own, other}
			}
		}
		checkMWU.Run(rt, c)
	})
}

// TestSeparated: (nearly) separated samples of medium and limit sizes, where one tail is tiny
// (1e-6 and far below) - the region in which an upper tail computed as 1-CDF loses all relative
// accuracy and shortcuts through symmetry are tempting.
func TestSeparated(t *testing.T) {
	ev.Rule(rule)
	ev.Rapid(t, "c01-separated", 3000, 24000, func(rt *rapid.T) {
		checkMWU.Run(rt, drawCaseOpt(rt, true))
	})
}

// FuzzMWU is the native coverage-guided front end (thorough tier): the byte
// string drives the same generator through rapid.MakeFuzz.
func FuzzMWU(f *testing.F) {
	f.Add([]byte{0, 1, 2, 3, 4, 5, 6, 7, 8, 9, 10, 11, 12, 13, 14, 15, 16, 17, 18, 19, 20, 21, 22, 23, 24, 25, 26, 27, 28, 29, 30, 31})
	f.Add(make([]byte, 256))
	f.Fuzz(rapid.MakeFuzz(func(rt *rapid.T) {
		checkMWU.Run(rt, drawCase(rt))
	}))
}
