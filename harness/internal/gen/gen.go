// Package gen holds rapid generators shared by the property packages. Every
// random choice goes through rapid so that shrinking and replay work.
package gen

import (
	"math"

	"pgregory.net/rapid"
)

// LogUniform draws a positive float whose logarithm is uniform on [ln lo, ln hi].
func LogUniform(t *rapid.T, lo, hi float64, label string) float64 {
	u := rapid.Float64Range(math.Log(lo), math.Log(hi)).Draw(t, label)
	x := math.Exp(u)
	if x < lo {
		x = lo
	}
	if x > hi {
		x = hi
	}
	return x
}

// Signed draws +1 or -1.
func Sign(t *rapid.T, label string) float64 {
	if rapid.Bool().Draw(t, label) {
		return -1
	}
	return 1
}

// Composition draws positive integers summing to n, in one of several
// styles: 0 all ones, 1 exactly two parts, 2 few big parts, 3 many pairs,
// 4 arbitrary.
func Composition(t *rapid.T, n int, style int, label string) []int {
	if n <= 0 {
		return nil
	}
	switch style {
	case 0:
		out := make([]int, n)
		for i := range out {
			out[i] = 1
		}
		return out
	case 1:
		if n < 2 {
			return []int{n}
		}
		a := rapid.IntRange(1, n-1).Draw(t, label+".split")
		return []int{a, n - a}
	case 2:
		k := rapid.IntRange(2, 4).Draw(t, label+".parts")
		if k > n {
			k = n
		}
		return cuts(t, n, k, label)
	case 3:
		var out []int
		rest := n
		for rest > 0 {
			p := 1
			if rest >= 2 && rapid.IntRange(0, 2).Draw(t, label+".pair") > 0 {
				p = 2
			}
			out = append(out, p)
			rest -= p
		}
		return out
	default:
		k := rapid.IntRange(1, n).Draw(t, label+".parts")
		return cuts(t, n, k, label)
	}
}

// cuts splits n into exactly k positive parts.
func cuts(t *rapid.T, n, k int, label string) []int {
	// choose k-1 distinct cut points in 1..n-1
	if k <= 1 {
		return []int{n}
	}
	marks := make([]bool, n) // marks[i]: cut after position i (1..n-1)
	chosen := 0
	for chosen < k-1 {
		// draw among remaining positions by index, so no rejection loop
		idx := rapid.IntRange(0, n-2-chosen).Draw(t, label+".cut")
		for p := 1; p <= n-1; p++ {
			if marks[p] {
				continue
			}
			if idx == 0 {
				marks[p] = true
				break
			}
			idx--
		}
		chosen++
	}
	var out []int
	run := 0
	for p := 1; p <= n; p++ {
		run++
		if p == n || marks[p] {
			out = append(out, run)
			run = 0
		}
	}
	return out
}

// Increasing draws k strictly increasing finite floats in one of several
// styles: 0 small integers, 1 general (any sign, moderate size), 2 huge
// magnitudes, 3 adjacent floats (one ulp apart), 4 tiny / subnormal.
func Increasing(t *rapid.T, k int, style int, label string) []float64 {
	out := make([]float64, k)
	var v float64
	switch style {
	case 0:
		v = float64(rapid.IntRange(-5, 5).Draw(t, label+".start"))
		for i := range out {
			if i > 0 {
				v += float64(rapid.IntRange(1, 3).Draw(t, label+".step"))
			}
			out[i] = v
		}
	case 1:
		v = rapid.Float64Range(-1000, 1000).Draw(t, label+".start")
		for i := range out {
			if i > 0 {
				v = next(v, LogUniform(t, 1e-6, 100, label+".step"))
			}
			out[i] = v
		}
	case 2:
		v = -1e300 + rapid.Float64Range(0, 1e299).Draw(t, label+".start")
		for i := range out {
			if i > 0 {
				v = next(v, LogUniform(t, 1e280, 1e298/float64(k+1), label+".step"))
			}
			out[i] = v
		}
	case 3:
		v = rapid.Float64Range(-10, 10).Draw(t, label+".start")
		for i := range out {
			if i > 0 {
				v = math.Nextafter(v, math.Inf(1))
			}
			out[i] = v
		}
	case 5:
		// the top binades, all of one sign: differences are representable, sums and midpoints
		// computed as (a+b)/2 are not (round 11, R11-C10)
		v = 9e307 + Unit(t, label+".start")*1e307
		for i := range out {
			if i > 0 {
				v = next(v, LogUniform(t, 1e292, 7e307/float64(k+1), label+".step"))
			}
			out[i] = v
		}
		if rapid.Bool().Draw(t, label+".negative") {
			for i, j := 0, len(out)-1; i <= j; i, j = i+1, j-1 {
				out[i], out[j] = -out[j], -out[i]
			}
		}
	default:
		v = -5e-324 * float64(rapid.IntRange(0, 4).Draw(t, label+".start"))
		for i := range out {
			if i > 0 {
				v = next(v, 5e-324*float64(rapid.IntRange(1, 1000).Draw(t, label+".step")))
			}
			out[i] = v
		}
	}
	return out
}

func next(v, d float64) float64 {
	w := v + d
	if !(w > v) {
		w = math.Nextafter(v, math.Inf(1))
	}
	return w
}

// Shuffled returns a permutation of xs chosen by rapid.
func Shuffled(t *rapid.T, xs []float64, label string) []float64 {
	if len(xs) < 2 {
		return append([]float64(nil), xs...)
	}
	return rapid.Permutation(xs).Draw(t, label)
}

// Perm draws a permutation of 0..n-1.
func Perm(t *rapid.T, n int, label string) []int {
	idx := make([]int, n)
	for i := range idx {
		idx[i] = i
	}
	if n < 2 {
		return idx
	}
	return rapid.Permutation(idx).Draw(t, label)
}

// PseudoShuffle deterministically scrambles xs (for enumerators, which must
// not use randomness): element i goes to position (i*step+off) mod n with
// step coprime to n.
func PseudoShuffle(xs []float64) []float64 {
	n := len(xs)
	if n < 3 {
		out := append([]float64(nil), xs...)
		if n == 2 {
			out[0], out[1] = out[1], out[0]
		}
		return out
	}
	step := n/2 + 1
	for gcd(step, n) != 1 {
		step++
	}
	out := make([]float64, n)
	for i, x := range xs {
		out[(i*step+1)%n] = x
	}
	return out
}

func gcd(a, b int) int {
	for b != 0 {
		a, b = b, a%b
	}
	return a
}

// Unit draws a number in [-1,1] on a grid of 1e-6. rapid's own float generator
// deliberately produces values such as 1e-155, whose squares underflow; data meant to be
// "spread * z" must not collapse to that scale.
func Unit(t *rapid.T, label string) float64 {
	return math.Round(rapid.Float64Range(-1, 1).Draw(t, label)*1e6) / 1e6
}

// SignedZeros returns a copy of the non-decreasing slice vals shifted so that vals[p] becomes -0
// and vals[p+1..q] become +0 (p < q): two floats that are the same number and differ as bit
// patterns, which any code that groups, sorts or compares equal values must treat alike. Entries
// below p have vals[p] subtracted, entries above q have vals[q] subtracted (monotone, never
// zero for a different number: x-y is non-zero whenever x != y). It returns nil if the shift
// overflows.
func SignedZeros(vals []float64, p, q int) []float64 {
	out := make([]float64, len(vals))
	for i, v := range vals {
		switch {
		case i < p:
			out[i] = v - vals[p]
		case i == p:
			out[i] = math.Copysign(0, -1)
		case i <= q:
			out[i] = 0
		default:
			out[i] = v - vals[q]
		}
		if math.IsInf(out[i], 0) || math.IsNaN(out[i]) {
			return nil
		}
	}
	return out
}

// FlattenEqual makes mapped constant wherever vals is (numerically) constant, so that mapped
// stays a monotone function of vals after SignedZeros.
func FlattenEqual(vals, mapped []float64) {
	for i := 1; i < len(vals); i++ {
		if vals[i] == vals[i-1] {
			mapped[i] = mapped[i-1]
		}
	}
}

// NearlySortedPerm draws a permutation of 0..n-1 that is the identity (an already sorted
// sequence) disturbed the way real data are: a few late observations appended behind a sorted
// bulk (among them, half of the time, the smallest), the same behind a descending bulk, two
// sorted runs one after the other, a few transpositions, a rotation, reversed blocks. Uniform
// permutations never look like this (an ascending prefix of 30 has probability 1/30!), and
// adaptive sorts, merges of "almost sorted" input and insertion-sort fall-backs take their
// special paths only here.
func NearlySortedPerm(t *rapid.T, n int, label string) []int {
	p := make([]int, n)
	for i := range p {
		p[i] = i
	}
	if n < 2 {
		return p
	}
	kind := rapid.IntRange(0, 5).Draw(t, label+".kind")
	switch kind {
	case 0, 1:
		maxTail := n / 8
		if maxTail < 1 || rapid.IntRange(0, 3).Draw(t, label+".longTail") == 0 {
			maxTail = (n + 3) / 4
		}
		k := rapid.IntRange(1, maxTail).Draw(t, label+".tail")
		out := map[int]bool{}
		if rapid.Bool().Draw(t, label+".takeMin") {
			out[0] = true
		}
		if rapid.IntRange(0, 3).Draw(t, label+".takeMax") == 0 {
			out[n-1] = true
		}
		for tries := 0; len(out) < k && tries < 4*k+8; tries++ {
			out[rapid.IntRange(0, n-1).Draw(t, label+".pull")] = true
		}
		var bulk, tail []int
		for i := 0; i < n; i++ {
			if out[i] {
				tail = append(tail, i)
			} else {
				bulk = append(bulk, i)
			}
		}
		if kind == 1 {
			for i, j := 0, len(bulk)-1; i < j; i, j = i+1, j-1 {
				bulk[i], bulk[j] = bulk[j], bulk[i]
			}
		}
		if len(tail) > 1 {
			tail = rapid.Permutation(tail).Draw(t, label+".tailOrder")
		}
		return append(bulk, tail...)
	case 2:
		var a, b []int
		for i := 0; i < n; i++ {
			if rapid.Bool().Draw(t, label+".run") {
				a = append(a, i)
			} else {
				b = append(b, i)
			}
		}
		return append(a, b...)
	case 3:
		for k := rapid.IntRange(1, 3).Draw(t, label+".swaps"); k > 0; k-- {
			i, j := rapid.IntRange(0, n-1).Draw(t, label+".i"), rapid.IntRange(0, n-1).Draw(t, label+".j")
			p[i], p[j] = p[j], p[i]
		}
		return p
	case 4:
		r := rapid.IntRange(1, n-1).Draw(t, label+".rot")
		return append(append([]int{}, p[r:]...), p[:r]...)
	default:
		b := rapid.IntRange(2, 9).Draw(t, label+".block")
		for s := 0; s < n; s += b {
			e := s + b
			if e > n {
				e = n
			}
			for i, j := s, e-1; i < j; i, j = i+1, j-1 {
				p[i], p[j] = p[j], p[i]
			}
		}
		return p
	}
}
