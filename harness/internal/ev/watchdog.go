package ev

import (
	"fmt"
	"runtime/debug"
	"time"
)

// A library call that never returns must show up as a violation of the property (every
// statement implies that the function returns), not as a test binary killed by its deadline
// with nothing to report. A wall clock alone cannot tell a loop from a starved process (on a
// machine loaded several times over a call may simply be waiting for its turn), so after a
// grace period a sibling goroutine of the same process does fixed units of busy work, and the
// guarded code is declared non-terminating only once that sibling has been granted the given
// amount of CPU (the Go scheduler shares the process's CPU between the goroutines about
// equally, so the guarded code has had at least as much). The abandoned goroutine keeps a core
// busy until the test binary exits.

type panicked struct {
	val   interface{}
	stack string
}

// hangs runs f on a goroutine of its own and waits for it; it reports true if f has not
// returned after the grace period plus cpuSeconds of CPU granted to a sibling. A panic inside f
// is returned (with the stack of the panicking goroutine).
func hangs(f func(), grace time.Duration, cpuSeconds int) (hung bool, p *panicked) {
	done := make(chan *panicked, 1)
	go func() {
		defer func() {
			if r := recover(); r != nil {
				st := string(debug.Stack())
				if len(st) > 1500 {
					st = st[:1500]
				}
				done <- &panicked{r, st}
				return
			}
			done <- nil
		}()
		f()
	}()
	select {
	case p := <-done:
		return false, p
	case <-time.After(grace):
	}
	stop := make(chan struct{})
	granted := make(chan struct{}, 1)
	go func() {
		units := cpuSeconds * 40 // one unit is about 25 ms of busy work
		x := uint64(88172645463325252)
		for u := 0; u < units; u++ {
			for i := 0; i < 12_000_000; i++ {
				x ^= x << 13
				x ^= x >> 7
				x ^= x << 17
			}
			select {
			case <-stop:
				return
			default:
			}
		}
		watchdogSink = x
		granted <- struct{}{}
	}()
	select {
	case p := <-done:
		close(stop)
		return false, p
	case <-granted:
		return true, nil
	}
}

var watchdogSink uint64

// Watchdog runs f (a library call that normally takes micro- to milliseconds) and reports
// non-termination as a budget violation after a 2 s grace period plus 10 s of CPU granted to a
// sibling. A panic inside f is re-raised on the caller's goroutine.
func Watchdog(what string, f func()) {
	hung, p := hangs(f, 2*time.Second, 10)
	if p != nil {
		panic(p.val)
	}
	if hung {
		BudgetPanic(what + " did not return although a sibling goroutine was granted 10 s of CPU meanwhile")
	}
}

// caseCPUSeconds is the CPU a sibling must have been granted before a whole case (one
// evaluation of a check: reference computations plus all library calls) is declared hung. The
// slowest legitimate cases take seconds; this is two orders of magnitude above them.
const caseCPUSeconds = 120

func hungCase() Outcome {
	return Fail("step budget exceeded (non-termination suspected): the case did not finish although a sibling goroutine was granted %d s of CPU after a 5 s grace period (a library call does not return)", caseCPUSeconds)
}

func panicOutcome(p *panicked) Outcome {
	if b, ok := p.val.(budgetExceeded); ok {
		return Fail("step budget exceeded (non-termination suspected): %s", string(b))
	}
	return Fail("panic: %v\n%s", p.val, p.stack)
}

var _ = fmt.Sprint
