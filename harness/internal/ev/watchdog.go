package ev

import "time"

// Watchdog runs f and reports non-termination as a budget violation. The calls it guards
// normally take micro- to milliseconds. A wall clock alone cannot tell a loop from a starved
// process (on a machine loaded several times over, a call may simply be waiting for its turn),
// so after a 2 s grace period a sibling goroutine of the same process does fixed units of busy
// work, and f is declared non-terminating only once that sibling has been granted about 10 s
// worth of CPU (the Go scheduler shares the process's CPU between the two about equally).
// A panic inside f is re-raised on the caller's goroutine. If f does not terminate its goroutine
// is abandoned (it keeps a core busy until the test binary exits).
func Watchdog(what string, f func()) {
	done := make(chan interface{}, 1)
	go func() {
		defer func() { done <- recover() }()
		f()
	}()
	select {
	case r := <-done:
		if r != nil {
			panic(r)
		}
		return
	case <-time.After(2 * time.Second):
	}
	stop := make(chan struct{})
	granted := make(chan struct{}, 1)
	go func() {
		const unitsNeeded = 400 // x ~25 ms of busy work
		x := uint64(88172645463325252)
		for u := 0; u < unitsNeeded; u++ {
			for i := 0; i < 12_000_000; i++ {
				x ^= x << 13
				x ^= x >> 7
				x ^= x << 17
			}
			select {
			case <-stop:
				return
			default:
			}
		}
		watchdogSink = x
		granted <- struct{}{}
	}()
	select {
	case r := <-done:
		close(stop)
		if r != nil {
			panic(r)
		}
	case <-granted:
		BudgetPanic(what + " did not return although a sibling goroutine was granted 10 s of CPU meanwhile")
	}
}

var watchdogSink uint64
