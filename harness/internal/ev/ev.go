// Package ev is the evidence collector and check runner shared by all
// property packages.
//
// One property is one or more pure functions check(case) Outcome over a
// JSON-serialisable case. Every front end (enumerator, rapid generator,
// native fuzzing, replay) funnels through Check.Run / Check.RunEnum, which
// count the case, classify it, record samples, recover panics, match
// known-finding signatures and remember the last failing case (which, under
// rapid, is the shrunk one).
package ev

import (
	"bufio"
	"encoding/binary"
	"encoding/json"
	"flag"
	"fmt"
	"hash/fnv"
	"math"
	"os"
	"path/filepath"
	"runtime/debug"
	"sort"
	"strconv"
	"strings"
	"sync"
	"testing"
	"time"

	"pgregory.net/rapid"
)

// F is a float64 that survives JSON even when it is NaN or infinite.
type F float64

func (f F) MarshalJSON() ([]byte, error) {
	x := float64(f)
	switch {
	case math.IsNaN(x):
		return []byte(`"NaN"`), nil
	case math.IsInf(x, 1):
		return []byte(`"+Inf"`), nil
	case math.IsInf(x, -1):
		return []byte(`"-Inf"`), nil
	}
	return []byte(strconv.FormatFloat(x, 'g', -1, 64)), nil
}

func (f *F) UnmarshalJSON(b []byte) error {
	s := strings.Trim(string(b), `"`)
	x, err := strconv.ParseFloat(s, 64)
	if err != nil {
		return err
	}
	*f = F(x)
	return nil
}

// Fs converts a float slice for serialisation.
func Fs(xs []float64) []F {
	if xs == nil {
		return nil
	}
	out := make([]F, len(xs))
	for i, x := range xs {
		out[i] = F(x)
	}
	return out
}

// Floats converts back.
func Floats(xs []F) []float64 {
	if xs == nil {
		return nil
	}
	out := make([]float64, len(xs))
	for i, x := range xs {
		out[i] = float64(x)
	}
	return out
}

// Outcome is what a check function reports about one case.
type Outcome struct {
	NT      bool     // the case is non-trivial by the property's stated rule
	Classes []string // generator / behaviour classes the case falls into
	Known   string   // signature id of a known finding this case hit (not a failure if listed)
	Err     error    // violation
}

// OK builds a passing outcome.
func OK(nt bool, classes ...string) Outcome { return Outcome{NT: nt, Classes: classes} }

// Fail builds a violating outcome.
func Fail(format string, args ...any) Outcome {
	return Outcome{Err: fmt.Errorf(format, args...)}
}

// TB is the part of testing.TB / *rapid.T that the runner needs.
type TB interface {
	Fatalf(format string, args ...any)
	Helper()
}

type violation struct {
	Check string          `json:"check"`
	Case  json.RawMessage `json:"case"`
	Error string          `json:"error"`
}

type sample struct {
	Check string          `json:"check"`
	Case  json.RawMessage `json:"case"`
	hash  uint64
}

type collector struct {
	mu          sync.Mutex
	property    string
	start       time.Time
	evals       int64
	ntHashes    map[uint64]struct{}
	ntEnum      int64 // distinct by construction (exhaustive enumerators)
	classes     map[string]int64
	perCheck    map[string]int64
	first       []sample
	bottom      []sample // smallest-hash samples: a deterministic, order-independent "random" sample
	last        *sample
	violations  []violation // last one per check name is kept
	knownHits   map[string]int64
	knownSample map[string]violation
	rules       []string
	exhaustive  []string // descriptions of completely enumerated sub-spaces
	notes       map[string]any
	maxErr      map[string]float64
	rapidRuns   []map[string]any
}

var col = &collector{
	ntHashes:    map[uint64]struct{}{},
	classes:     map[string]int64{},
	perCheck:    map[string]int64{},
	knownHits:   map[string]int64{},
	knownSample: map[string]violation{},
	notes:       map[string]any{},
	maxErr:      map[string]float64{},
	start:       time.Now(),
}

// registry of replayable checks
var registry = map[string]func(json.RawMessage) Outcome{}

// Check is a registered check function over cases of type C.
type Check[C any] struct {
	Name string
	fn   func(*C) Outcome
}

// Register makes a check known to the runner and to the replay front end.
func Register[C any](name string, fn func(*C) Outcome) *Check[C] {
	c := &Check[C]{Name: name, fn: fn}
	registry[name] = func(raw json.RawMessage) Outcome {
		var cs C
		if err := json.Unmarshal(raw, &cs); err != nil {
			return Fail("replay: cannot decode case: %v", err)
		}
		return c.safe(&cs)
	}
	return c
}

func (c *Check[C]) safe(cs *C) Outcome {
	// every case runs under the watchdog: a library call that does not return is a violation
	var res Outcome
	hung, p := hangs(func() { res = c.fn(cs) }, 5*time.Second, caseCPUSeconds)
	if p != nil {
		return panicOutcome(p)
	}
	if hung {
		return hungCase()
	}
	return res
}

type budgetExceeded string

// BudgetPanic aborts a case whose step budget ran out; it is reported as a
// violation (used where the property claims termination).
func BudgetPanic(msg string) { panic(budgetExceeded(msg)) }

// Run evaluates the check on one generated case, hashing its canonical JSON
// for the distinct-non-trivial count.
func (c *Check[C]) Run(t TB, cs *C) {
	t.Helper()
	c.run(t, cs, true)
}

// RunEnum is Run for exhaustive enumerators whose cases are distinct by
// construction: no hashing, and the case is serialised only when sampled.
func (c *Check[C]) RunEnum(t TB, cs *C) {
	t.Helper()
	c.run(t, cs, false)
}

func (c *Check[C]) run(t TB, cs *C, hashed bool) {
	t.Helper()
	// Serialise before running: the check must not be able to change what
	// is recorded as the case.
	var raw []byte
	var h uint64
	if hashed {
		var err error
		raw, err = json.Marshal(cs)
		if err != nil {
			t.Fatalf("harness error: case not serialisable: %v", err)
		}
		hh := fnv.New64a()
		hh.Write([]byte(c.Name))
		hh.Write(raw)
		h = hh.Sum64()
	}
	out := c.safe(cs)

	col.mu.Lock()
	col.evals++
	n := col.evals
	col.perCheck[c.Name]++
	for _, cl := range out.Classes {
		col.classes[cl]++
	}
	needSample := false
	if out.NT {
		if hashed {
			col.ntHashes[h] = struct{}{}
		} else {
			col.ntEnum++
		}
	}
	if !hashed {
		// sample the 1st, 2nd, 10th, 100th, ... enumerated case of each check
		k := col.perCheck[c.Name]
		needSample = k <= 2 || isPow10(k)
	}
	col.mu.Unlock()

	if !hashed && (needSample || out.Err != nil || out.Known != "") {
		raw, _ = json.Marshal(cs)
		hh := fnv.New64a()
		hh.Write([]byte(c.Name))
		hh.Write(raw)
		h = hh.Sum64()
	}
	if raw != nil {
		col.addSample(c.Name, raw, h, n)
	}

	if out.Known != "" && out.Err == nil {
		if KnownListed(col.property, out.Known) {
			col.mu.Lock()
			col.knownHits[out.Known]++
			if _, ok := col.knownSample[out.Known]; !ok {
				col.knownSample[out.Known] = violation{Check: c.Name, Case: raw, Error: out.Known}
			}
			col.mu.Unlock()
			return
		}
		out.Err = fmt.Errorf("case matches finding signature %q, which is not listed as known in KNOWN_FINDINGS.txt", out.Known)
	}
	if out.Err != nil {
		col.mu.Lock()
		v := violation{Check: c.Name, Case: raw, Error: out.Err.Error()}
		replaced := false
		for i := range col.violations {
			if col.violations[i].Check == c.Name {
				col.violations[i] = v
				replaced = true
			}
		}
		if !replaced {
			col.violations = append(col.violations, v)
		}
		col.mu.Unlock()
		t.Fatalf("check %s failed: %v\ncase: %s", c.Name, out.Err, trunc(raw, 4000))
	}
}

func isPow10(k int64) bool {
	for k >= 10 && k%10 == 0 {
		k /= 10
	}
	return k == 1
}

func trunc(b []byte, n int) string {
	if len(b) <= n {
		return string(b)
	}
	return string(b[:n]) + fmt.Sprintf("...(%d bytes)", len(b))
}

const maxSampleBytes = 3000

func (c *collector) addSample(name string, raw []byte, h uint64, n int64) {
	if len(raw) > maxSampleBytes {
		// keep it valid JSON: a string holding the truncated encoding
		q, _ := json.Marshal(trunc(raw, maxSampleBytes))
		raw = q
	}
	s := sample{Check: name, Case: raw, hash: h}
	c.mu.Lock()
	defer c.mu.Unlock()
	if len(c.first) < 2 {
		c.first = append(c.first, s)
		return
	}
	c.last = &s
	const k = 4
	if len(c.bottom) < k {
		c.bottom = append(c.bottom, s)
		sort.Slice(c.bottom, func(i, j int) bool { return c.bottom[i].hash < c.bottom[j].hash })
		return
	}
	if h < c.bottom[k-1].hash {
		for _, b := range c.bottom {
			if b.hash == h {
				return
			}
		}
		c.bottom[k-1] = s
		sort.Slice(c.bottom, func(i, j int) bool { return c.bottom[i].hash < c.bottom[j].hash })
	}
}

// Rule records (once) the generation / non-triviality rule text for evidence.
func Rule(text string) {
	col.mu.Lock()
	defer col.mu.Unlock()
	for _, r := range col.rules {
		if r == text {
			return
		}
	}
	col.rules = append(col.rules, text)
}

// Exhaustive records that a finite sub-space was enumerated completely.
func Exhaustive(desc string) {
	col.mu.Lock()
	defer col.mu.Unlock()
	col.exhaustive = append(col.exhaustive, desc)
}

// Note stores an extra key in the evidence coverage object.
func Note(key string, v any) {
	col.mu.Lock()
	defer col.mu.Unlock()
	col.notes[key] = v
}

// AddCount adds to an integer note.
func AddCount(key string, d int64) {
	col.mu.Lock()
	defer col.mu.Unlock()
	cur, _ := col.notes[key].(int64)
	col.notes[key] = cur + d
}

// MaxErr tracks the largest normalised error (error / tolerance) seen per label.
func MaxErr(label string, normalised float64) {
	if math.IsNaN(normalised) {
		return
	}
	col.mu.Lock()
	defer col.mu.Unlock()
	if normalised > col.maxErr[label] {
		col.maxErr[label] = normalised
	}
}

// ---------------------------------------------------------------- config

// Property returns the property id this binary decides.
func Property() string { return col.property }

// Tier is "quick" or "thorough".
func Tier() string {
	if os.Getenv("VERIF_TIER") == "thorough" {
		return "thorough"
	}
	return "quick"
}

// Thorough reports whether the thorough tier is running.
func Thorough() bool { return Tier() == "thorough" }

// Seed is VERIF_SEED (default 1).
func Seed() int64 {
	s, err := strconv.ParseInt(os.Getenv("VERIF_SEED"), 10, 64)
	if err != nil {
		return 1
	}
	return s
}

// Shard and Shards describe how the driver split a thorough run.
func Shard() int {
	s, _ := strconv.Atoi(os.Getenv("VERIF_SHARD"))
	return s
}
func Shards() int {
	s, _ := strconv.Atoi(os.Getenv("VERIF_SHARDS"))
	if s < 1 {
		return 1
	}
	return s
}

// N picks a case count by tier; thorough counts are totals and are divided
// over the shards.
func N(quick, thorough int) int {
	if !Thorough() {
		return quick
	}
	n := (thorough + Shards() - 1) / Shards()
	if n < 1 {
		n = 1
	}
	return n
}

// MyShare reports whether enumerated item i belongs to this shard.
func MyShare(i int) bool { return i%Shards() == Shard() }

// Replaying reports whether this process is a replay run (generators skip).
func Replaying() bool { return os.Getenv("VERIF_REPLAY") != "" }

// Rapid runs a rapid property with a seed derived from VERIF_SEED, the shard
// and the name, a case count chosen by tier, and no fail files.
func Rapid(t *testing.T, name string, quick, thorough int, prop func(*rapid.T)) {
	t.Helper()
	if Replaying() {
		return
	}
	n := N(quick, thorough)
	hh := fnv.New64a()
	hh.Write([]byte(name))
	seed := uint64(1) + uint64(Seed())*1000003 + uint64(Shard())*7919 + hh.Sum64()%100003
	if seed == 0 {
		seed = 1
	}
	must(flag.Set("rapid.checks", strconv.Itoa(n)))
	must(flag.Set("rapid.seed", strconv.FormatUint(seed, 10)))
	must(flag.Set("rapid.nofailfile", "true"))
	if s := os.Getenv("VERIF_SHRINKTIME"); s != "" {
		must(flag.Set("rapid.shrinktime", s))
	}
	before := Evaluations()
	rapid.Check(t, prop)
	col.mu.Lock()
	col.rapidRuns = append(col.rapidRuns, map[string]any{
		"name": name, "requested": n, "seed": seed, "evaluations": col.evals - before,
	})
	col.mu.Unlock()
}

func must(err error) {
	if err != nil {
		panic(err)
	}
}

// Evaluations returns the number of check evaluations so far.
func Evaluations() int64 {
	col.mu.Lock()
	defer col.mu.Unlock()
	return col.evals
}

// ---------------------------------------------------------------- known findings

var (
	knownOnce sync.Once
	knownSet  map[string]string // "property/sig" -> description
)

func loadKnown() {
	knownSet = map[string]string{}
	path := os.Getenv("VERIF_KNOWN")
	if path == "" {
		path = "/verif/KNOWN_FINDINGS.txt"
	}
	f, err := os.Open(path)
	if err != nil {
		return
	}
	defer f.Close()
	sc := bufio.NewScanner(f)
	for sc.Scan() {
		line := strings.TrimSpace(sc.Text())
		if !strings.HasPrefix(line, "known:") {
			continue
		}
		var prop, sig string
		fields := strings.Fields(line[len("known:"):])
		rest := []string{}
		for _, f := range fields {
			switch {
			case strings.HasPrefix(f, "property=") && prop == "":
				prop = f[len("property="):]
			case strings.HasPrefix(f, "sig=") && sig == "":
				sig = f[len("sig="):]
			default:
				rest = append(rest, f)
			}
		}
		if prop != "" && sig != "" {
			knownSet[prop+"/"+sig] = strings.Join(rest, " ")
		}
	}
}

// KnownListed reports whether the signature is listed as a known finding for
// the property. The file is only ever read.
func KnownListed(property, sig string) bool {
	knownOnce.Do(loadKnown)
	_, ok := knownSet[property+"/"+sig]
	return ok
}

func knownDesc(property, sig string) string {
	knownOnce.Do(loadKnown)
	return knownSet[property+"/"+sig]
}

// ---------------------------------------------------------------- main / flush

// Main is the TestMain body of every property package.
func Main(m *testing.M, property string) {
	col.property = property
	col.start = time.Now()
	code := m.Run()
	if err := flush(code); err != nil {
		fmt.Fprintf(os.Stderr, "harness error: cannot write evidence fragment: %v\n", err)
		if code == 0 {
			code = 2
		}
	}
	os.Exit(code)
}

type fragment struct {
	Property    string               `json:"property"`
	Tier        string               `json:"tier"`
	Seed        int64                `json:"seed"`
	Shard       int                  `json:"shard"`
	Shards      int                  `json:"shards"`
	ExitCode    int                  `json:"exit_code"`
	Evaluations int64                `json:"evaluations"`
	NTHashed    int                  `json:"nontrivial_hashed"`
	NTEnum      int64                `json:"nontrivial_enumerated"`
	HashFile    string               `json:"hash_file,omitempty"`
	Classes     map[string]int64     `json:"classes"`
	PerCheck    map[string]int64     `json:"per_check"`
	Samples     []sample             `json:"samples"`
	Violations  []violation          `json:"violations"`
	KnownHits   map[string]int64     `json:"known_hits"`
	KnownDesc   map[string]string    `json:"known_desc"`
	KnownSample map[string]violation `json:"known_samples"`
	Rules       []string             `json:"rules"`
	Exhaustive  []string             `json:"exhaustive"`
	Notes       map[string]any       `json:"notes"`
	MaxErr      map[string]float64   `json:"max_normalised_error"`
	RapidRuns   []map[string]any     `json:"rapid_runs"`
	WallS       float64              `json:"wall_s"`
}

func flush(code int) error {
	out := os.Getenv("VERIF_EV_OUT")
	if out == "" {
		return nil
	}
	c := col
	c.mu.Lock()
	defer c.mu.Unlock()
	fr := fragment{
		Property: c.property, Tier: Tier(), Seed: Seed(), Shard: Shard(), Shards: Shards(),
		ExitCode: code, Evaluations: c.evals, NTHashed: len(c.ntHashes), NTEnum: c.ntEnum,
		Classes: c.classes, PerCheck: c.perCheck, Violations: c.violations,
		KnownHits: c.knownHits, KnownDesc: map[string]string{}, KnownSample: c.knownSample,
		Rules: c.rules, Exhaustive: c.exhaustive, Notes: c.notes, MaxErr: c.maxErr,
		RapidRuns: c.rapidRuns, WallS: time.Since(c.start).Seconds(),
	}
	for sig := range c.knownHits {
		fr.KnownDesc[sig] = knownDesc(c.property, sig)
	}
	fr.Samples = append(fr.Samples, c.first...)
	fr.Samples = append(fr.Samples, c.bottom...)
	if c.last != nil {
		fr.Samples = append(fr.Samples, *c.last)
	}
	if fr.Violations == nil {
		fr.Violations = []violation{}
	}
	// hashes go to a side file so that the driver can take the union over shards
	if len(c.ntHashes) > 0 {
		hf := out + ".hashes"
		f, err := os.Create(hf)
		if err != nil {
			return err
		}
		w := bufio.NewWriter(f)
		var b [8]byte
		for h := range c.ntHashes {
			binary.LittleEndian.PutUint64(b[:], h)
			w.Write(b[:])
		}
		if err := w.Flush(); err != nil {
			return err
		}
		f.Close()
		fr.HashFile = hf
	}
	b, err := json.Marshal(fr)
	if err != nil {
		return err
	}
	return os.WriteFile(out, b, 0o644)
}

// ---------------------------------------------------------------- replay

// Replay is called from each package's TestReplay: it loads the file named
// by VERIF_REPLAY and runs the recorded case through its check, bypassing
// every generator.
func Replay(t *testing.T) {
	path := os.Getenv("VERIF_REPLAY")
	if path == "" {
		replayCorpus(t)
		return
	}
	replayFile(t, path, false)
}

// replayCorpus runs every saved regression case of the property (the files of
// VERIF_CORPUS: shrunk failures from the mutant self-test, the seeded changes
// and the defects of the pinned tree) through its check, in shard 0 only.
// These are plain regression checks that bypass every generator.
func replayCorpus(t *testing.T) {
	dir := os.Getenv("VERIF_CORPUS")
	if dir == "" || Shard() != 0 {
		t.Skip("no VERIF_REPLAY / VERIF_CORPUS")
	}
	ents, err := os.ReadDir(dir)
	if err != nil {
		t.Skip("no corpus directory")
	}
	n := 0
	for _, e := range ents {
		if e.IsDir() || !strings.HasSuffix(e.Name(), ".json") {
			continue
		}
		replayFile(t, filepath.Join(dir, e.Name()), true)
		n++
	}
	Note("regression_corpus_cases", n)
}

func replayFile(t *testing.T, path string, corpus bool) {
	b, err := os.ReadFile(path)
	if err != nil {
		t.Fatalf("replay: %v", err)
	}
	var v struct {
		Property string          `json:"property"`
		Check    string          `json:"check"`
		Case     json.RawMessage `json:"case"`
	}
	if err := json.Unmarshal(b, &v); err != nil {
		if corpus { // a damaged corpus file must not break the check: skipped and counted
			AddCount("regression_corpus_unreadable", 1)
			return
		}
		t.Fatalf("replay: %v", err)
	}
	fn, ok := registry[v.Check]
	if !ok {
		if corpus { // a case of a check that no longer exists
			AddCount("regression_corpus_unreadable", 1)
			return
		}
		t.Fatalf("replay: unknown check %q", v.Check)
	}
	out := fn(v.Case)
	col.mu.Lock()
	col.evals++
	col.perCheck[v.Check]++
	if corpus {
		col.classes["regression-corpus"]++
	}
	col.mu.Unlock()
	if !corpus {
		col.addSample(v.Check, v.Case, 0, 1)
	}
	if out.Known != "" && out.Err == nil {
		if KnownListed(col.property, out.Known) {
			col.mu.Lock()
			col.knownHits[out.Known]++
			col.knownSample[out.Known] = violation{Check: v.Check, Case: v.Case, Error: out.Known}
			col.mu.Unlock()
			return
		}
		out.Err = fmt.Errorf("case matches finding signature %q, which is not listed as known", out.Known)
	}
	if out.Err != nil {
		col.mu.Lock()
		col.violations = append(col.violations, violation{Check: v.Check, Case: v.Case, Error: out.Err.Error()})
		col.mu.Unlock()
		t.Fatalf("replayed case %s violates %s: %v", filepath.Base(path), v.Check, out.Err)
	}
}

// ---------------------------------------------------------------- parallel enumeration

type stopItem struct{}

type ptb struct {
	mu     *sync.Mutex
	failed *bool
	msg    *string
}

func (p ptb) Helper() {}
func (p ptb) Fatalf(format string, args ...any) {
	p.mu.Lock()
	if !*p.failed {
		*p.failed = true
		*p.msg = fmt.Sprintf(format, args...)
	}
	p.mu.Unlock()
	panic(stopItem{})
}

// Parallel runs fn(tb, i) for every i in [0,n) on a pool of goroutines (the
// machine's cores divided by the number of shards). A failing item stops the
// pool and is re-raised on t from the test goroutine.
func Parallel(t *testing.T, n int, fn func(tb TB, i int)) {
	t.Helper()
	if Replaying() {
		return
	}
	workers := runtimeCPUs() / Shards()
	if workers < 1 {
		workers = 1
	}
	var mu sync.Mutex
	failed := false
	msg := ""
	next := 0
	var wg sync.WaitGroup
	for w := 0; w < workers; w++ {
		wg.Add(1)
		go func() {
			defer wg.Done()
			tb := ptb{&mu, &failed, &msg}
			for {
				mu.Lock()
				if failed || next >= n {
					mu.Unlock()
					return
				}
				i := next
				next++
				mu.Unlock()
				func() {
					defer func() {
						if r := recover(); r != nil {
							if _, ok := r.(stopItem); ok {
								return
							}
							mu.Lock()
							if !failed {
								failed = true
								msg = fmt.Sprintf("harness panic in enumerator: %v\n%s", r, debug.Stack())
							}
							mu.Unlock()
						}
					}()
					fn(tb, i)
				}()
			}
		}()
	}
	wg.Wait()
	if failed {
		t.Fatalf("%s", msg)
	}
}
