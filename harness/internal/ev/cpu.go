package ev

import "runtime"

func runtimeCPUs() int { return runtime.NumCPU() }
