package ref

import "math"

var glX = [5]float64{0, 0.5384693101056831, -0.5384693101056831, 0.9061798459386640, -0.9061798459386640}
var glW = [5]float64{0.5688888888888889, 0.4786286704993665, 0.4786286704993665, 0.2369268850561891, 0.2369268850561891}

// GaussLegendre integrates f over [a,b] by the composite 5-point
// Gauss-Legendre rule on equal panels no wider than h.
func GaussLegendre(f func(float64) float64, a, b, h float64) float64 {
	if !(b > a) {
		return 0
	}
	n := int(math.Ceil((b - a) / h))
	if n < 1 {
		n = 1
	}
	w := (b - a) / float64(n)
	sum, comp := 0.0, 0.0
	for i := 0; i < n; i++ {
		lo := a + float64(i)*w
		mid, half := lo+w/2, w/2
		p := 0.0
		for k := 0; k < 5; k++ {
			p += glW[k] * f(mid+half*glX[k])
		}
		// Kahan summation over panels
		y := p*half - comp
		t := sum + y
		comp = (t - sum) - y
		sum = t
	}
	return sum
}

// GaussLegendreBreaks integrates f over [a,b] splitting at the given break
// points (kinks of f) in addition to the maximum panel width.
func GaussLegendreBreaks(f func(float64) float64, a, b, h float64, breaks []float64) float64 {
	pts := []float64{a}
	for _, x := range breaks {
		if x > a && x < b {
			pts = append(pts, x)
		}
	}
	pts = append(pts, b)
	sortFloats(pts)
	total := 0.0
	for i := 1; i < len(pts); i++ {
		if pts[i] > pts[i-1] {
			total += GaussLegendre(f, pts[i-1], pts[i], h)
		}
	}
	return total
}

func sortFloats(xs []float64) {
	for i := 1; i < len(xs); i++ {
		for j := i; j > 0 && xs[j] < xs[j-1]; j-- {
			xs[j], xs[j-1] = xs[j-1], xs[j]
		}
	}
}
