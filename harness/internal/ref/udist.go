// Package ref holds the reference models the checks compare the library
// against. Nothing here imports go-moremath.
package ref

import (
	"math/big"
	"math/bits"
)

// U128 is an unsigned 128-bit integer (enough for C(130,65) < 2^127).
type U128 struct{ Hi, Lo uint64 }

func (a U128) Add(b U128) U128 {
	lo, c := bits.Add64(a.Lo, b.Lo, 0)
	hi, c2 := bits.Add64(a.Hi, b.Hi, c)
	if c2 != 0 {
		panic("ref: U128 overflow in Add")
	}
	return U128{hi, lo}
}

func (a U128) MulSmall(m uint64) U128 {
	h1, l1 := bits.Mul64(a.Lo, m)
	h2, l2 := bits.Mul64(a.Hi, m)
	if h2 != 0 {
		panic("ref: U128 overflow in Mul")
	}
	hi, c := bits.Add64(h1, l2, 0)
	if c != 0 {
		panic("ref: U128 overflow in Mul")
	}
	return U128{hi, l1}
}

func (a U128) IsZero() bool { return a.Hi == 0 && a.Lo == 0 }

func (a U128) Big() *big.Int {
	z := new(big.Int).SetUint64(a.Hi)
	z.Lsh(z, 64)
	return z.Or(z, new(big.Int).SetUint64(a.Lo))
}

// chooseSmall returns C(n,k) for n <= 60 exactly in a uint64.
func chooseSmall(n, k int) uint64 {
	if k < 0 || k > n {
		return 0
	}
	if k > n-k {
		k = n - k
	}
	c := uint64(1)
	for i := 1; i <= k; i++ {
		// c*(n-k+i) is divisible by i; split to avoid overflow
		hi, lo := bits.Mul64(c, uint64(n-k+i))
		q, _ := bits.Div64(hi, lo, uint64(i))
		c = q
	}
	return c
}

// UCounts is the exact null distribution of 2U: Counts[w] is the number of
// ways to choose which n1 of the N pooled observations (N = sum(T), tie group
// j holding T[j] equal values, groups in ascending order) form the first
// sample such that twice the Mann-Whitney statistic of that sample is w.
type UCounts struct {
	N1, N2 int
	Counts []U128 // index 2U, 0..2*N1*N2
	Total  *big.Int
}

// UExact computes UCounts by a dynamic programme over the tie groups.
// It follows the definition: with r_j values of group j in sample 1 and
// s_j = T[j]-r_j in sample 2,
//
//	2U = sum_j r_j * (2 * sum_{i<j} s_i + s_j)
//
// and there are prod_j C(T[j], r_j) such selections. T == nil means no ties.
// Every group must have at most 60 members and sum(T) at most 130.
func UExact(n1, n2 int, T []int) *UCounts {
	N := n1 + n2
	if T == nil {
		T = make([]int, N)
		for i := range T {
			T[i] = 1
		}
	}
	sum := 0
	for _, t := range T {
		if t < 1 || t > 60 {
			panic("ref: tie group size out of range")
		}
		sum += t
	}
	if sum != N || N > 130 {
		panic("ref: bad tie vector")
	}
	W := 2*n1*n2 + 1
	cur := make([][]U128, n1+1)
	nxt := make([][]U128, n1+1)
	for a := range cur {
		cur[a] = make([]U128, W)
		nxt[a] = make([]U128, W)
	}
	cur[0][0] = U128{0, 1}
	// reachable range of w for each a, to skip empty stretches
	lo := make([]int, n1+1)
	hi := make([]int, n1+1)
	for a := range lo {
		lo[a], hi[a] = 1, 0 // empty
	}
	lo[0], hi[0] = 0, 0
	below := 0 // number of pooled values in earlier groups
	for _, t := range T {
		nlo := make([]int, n1+1)
		nhi := make([]int, n1+1)
		for a := range nlo {
			nlo[a], nhi[a] = 1, 0
			for w := range nxt[a] {
				nxt[a][w] = U128{}
			}
		}
		for a := 0; a <= n1; a++ {
			if lo[a] > hi[a] {
				continue
			}
			s2below := below - a // sample-2 values strictly below this group
			if s2below < 0 {
				continue
			}
			for r := 0; r <= t && a+r <= n1; r++ {
				s := t - r
				// sample 2 must not exceed n2 in total
				if s2below+s > n2 {
					continue
				}
				dw := r * (2*s2below + s)
				mult := chooseSmall(t, r)
				for w := lo[a]; w <= hi[a]; w++ {
					c := cur[a][w]
					if c.IsZero() {
						continue
					}
					nw := w + dw
					nxt[a+r][nw] = nxt[a+r][nw].Add(c.MulSmall(mult))
				}
				if nlo[a+r] > nhi[a+r] {
					nlo[a+r], nhi[a+r] = lo[a]+dw, hi[a]+dw
				} else {
					if lo[a]+dw < nlo[a+r] {
						nlo[a+r] = lo[a] + dw
					}
					if hi[a]+dw > nhi[a+r] {
						nhi[a+r] = hi[a] + dw
					}
				}
			}
		}
		cur, nxt = nxt, cur
		lo, hi = nlo, nhi
		below += t
	}
	res := &UCounts{N1: n1, N2: n2, Counts: cur[n1], Total: new(big.Int)}
	for _, c := range res.Counts {
		if !c.IsZero() {
			res.Total.Add(res.Total, c.Big())
		}
	}
	// sanity: the total must be C(N, n1)
	if res.Total.Cmp(new(big.Int).Binomial(int64(N), int64(n1))) != 0 {
		panic("ref: UExact total is not C(N,n1)")
	}
	return res
}

func (u *UCounts) ratio(num *big.Int) float64 {
	f, _ := new(big.Rat).SetFrac(num, u.Total).Float64()
	return f
}

// PLE returns Pr[2U' <= w].
func (u *UCounts) PLE(w int) float64 {
	if w < 0 {
		return 0
	}
	if w >= len(u.Counts)-1 {
		return 1
	}
	acc := new(big.Int)
	for i := 0; i <= w; i++ {
		if !u.Counts[i].IsZero() {
			acc.Add(acc, u.Counts[i].Big())
		}
	}
	return u.ratio(acc)
}

// PGE returns Pr[2U' >= w].
func (u *UCounts) PGE(w int) float64 {
	if w <= 0 {
		return 1
	}
	if w > len(u.Counts)-1 {
		return 0
	}
	acc := new(big.Int)
	for i := w; i < len(u.Counts); i++ {
		if !u.Counts[i].IsZero() {
			acc.Add(acc, u.Counts[i].Big())
		}
	}
	return u.ratio(acc)
}

// PEQ returns Pr[2U' == w].
func (u *UCounts) PEQ(w int) float64 {
	if w < 0 || w >= len(u.Counts) {
		return 0
	}
	return u.ratio(u.Counts[w].Big())
}

// Attainable reports whether 2U = w has positive probability.
func (u *UCounts) Attainable(w int) bool {
	return w >= 0 && w < len(u.Counts) && !u.Counts[w].IsZero()
}

// USubsets is the literal definition: enumerate every size-n1 subset of the
// ranked pool and tally 2U. Only for small N; used to anchor UExact.
func USubsets(n1, n2 int, T []int) map[int]int64 {
	N := n1 + n2
	if T == nil {
		T = make([]int, N)
		for i := range T {
			T[i] = 1
		}
	}
	rank := make([]int, 0, N) // group index of every pooled value
	for g, t := range T {
		for i := 0; i < t; i++ {
			rank = append(rank, g)
		}
	}
	out := map[int]int64{}
	for mask := 0; mask < 1<<uint(N); mask++ {
		if bits.OnesCount(uint(mask)) != n1 {
			continue
		}
		w := 0
		for i := 0; i < N; i++ {
			if mask>>uint(i)&1 == 0 {
				continue
			}
			for j := 0; j < N; j++ {
				if mask>>uint(j)&1 == 1 {
					continue
				}
				switch {
				case rank[i] > rank[j]:
					w += 2
				case rank[i] == rank[j]:
					w++
				}
			}
		}
		out[w]++
	}
	return out
}

// PairCountU2 returns twice the Mann-Whitney U statistic of x1 against x2 by
// the O(n1*n2) definition: 2 for every pair a>b, 1 for every pair a==b.
func PairCountU2(x1, x2 []float64) int {
	w := 0
	for _, a := range x1 {
		for _, b := range x2 {
			if a > b {
				w += 2
			} else if a == b {
				w++
			}
		}
	}
	return w
}
