package ref

import (
	"math"
	"testing"
)

func TestTCDFClosedForms(t *testing.T) {
	for _, x := range []float64{-50, -7.3, -2, -1, -0.3, -1e-4, 0, 1e-6, 0.5, 1, 1.7, 3, 12, 100, 1e4} {
		want := map[float64]float64{
			1: 0.5 + math.Atan(x)/math.Pi,
			2: 0.5 + x/(2*math.Sqrt(2+x*x)),
			3: 0.5 + (1/math.Pi)*((x/math.Sqrt(3))/(1+x*x/3)+math.Atan(x/math.Sqrt(3))),
			4: 0.5 + 3.0/8*(x/math.Sqrt(1+x*x/4))*(1-(x*x/(1+x*x/4))/12),
		}
		for nu, w := range want {
			got := TCDF(x, nu)
			if math.Abs(got-w) > 1e-13 {
				t.Errorf("TCDF(%g,%g)=%.17g want %.17g", x, nu, got, w)
			}
		}
	}
}

func TestNormal(t *testing.T) {
	for _, z := range []float64{-30, -8, -3, -1, -0.1, 0, 0.2, 1, 2.5, 6} {
		a, b := NormCDF(z), NormCDFGamma(z)
		if math.Abs(a-b) > 1e-14 && math.Abs(a-b) > 1e-12*a {
			t.Errorf("NormCDF(%g): erfc %.17g gamma %.17g", z, a, b)
		}
	}
	for _, p := range []float64{1e-300, 1e-50, 1e-10, 0.001, 0.02425, 0.3, 0.5, 0.7, 0.97575, 0.999999} {
		x := NormInv(p)
		if r := math.Abs(NormCDF(x)/p - 1); r > 1e-13 {
			t.Errorf("NormInv(%g)=%g, CDF back %g (rel %g)", p, x, NormCDF(x), r)
		}
	}
}
