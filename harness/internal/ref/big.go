package ref

import (
	"math"
	"math/big"
)

// Prec is the working precision of the big.Float references.
const Prec = 400

// B converts a float64 exactly.
func B(x float64) *big.Float { return new(big.Float).SetPrec(Prec).SetFloat64(x) }

// BI converts an int exactly.
func BI(n int) *big.Float { return new(big.Float).SetPrec(Prec).SetInt64(int64(n)) }

func bnew() *big.Float { return new(big.Float).SetPrec(Prec) }

// Add, Sub, Mul, Quo allocate their result.
func Add(a, b *big.Float) *big.Float { return bnew().Add(a, b) }
func Sub(a, b *big.Float) *big.Float { return bnew().Sub(a, b) }
func Mul(a, b *big.Float) *big.Float { return bnew().Mul(a, b) }
func Quo(a, b *big.Float) *big.Float { return bnew().Quo(a, b) }
func Sqrt(a *big.Float) *big.Float   { return bnew().Sqrt(a) }
func Neg(a *big.Float) *big.Float    { return bnew().Neg(a) }
func Abs(a *big.Float) *big.Float    { return bnew().Abs(a) }

// F64 rounds to the nearest float64.
func F64(a *big.Float) float64 {
	f, _ := a.Float64()
	return f
}

// Sum is the exact-to-400-bits sum.
func Sum(xs []float64) *big.Float {
	s := bnew()
	for _, x := range xs {
		s.Add(s, B(x))
	}
	return s
}

// WSum is sum(w_i * x_i).
func WSum(xs, ws []float64) *big.Float {
	s := bnew()
	for i, x := range xs {
		s.Add(s, Mul(B(x), B(ws[i])))
	}
	return s
}

// Mean of a non-empty slice.
func Mean(xs []float64) *big.Float {
	return Quo(Sum(xs), BI(len(xs)))
}

// SumSqDev is sum (x_i - mean)^2.
func SumSqDev(xs []float64) *big.Float {
	m := Mean(xs)
	s := bnew()
	for _, x := range xs {
		d := Sub(B(x), m)
		s.Add(s, Mul(d, d))
	}
	return s
}

// Variance with the n-1 denominator; len(xs) >= 2.
func Variance(xs []float64) *big.Float {
	return Quo(SumSqDev(xs), BI(len(xs)-1))
}

var (
	ln2     *big.Float
	bigOne  = BI(1)
	bigTwo  = BI(2)
	bigHalf = B(0.5)
)

func init() {
	// ln 2 = 2 atanh(1/3)
	ln2 = Mul(bigTwo, atanhSeries(Quo(bigOne, BI(3))))
}

// atanhSeries sums z + z^3/3 + z^5/5 + ... for |z| <= 1/3.
func atanhSeries(z *big.Float) *big.Float {
	z2 := Mul(z, z)
	term := bnew().Set(z)
	sum := bnew().Set(z)
	for k := 3; k < 2000; k += 2 {
		term = Mul(term, z2)
		t := Quo(term, BI(k))
		sum.Add(sum, t)
		if t.Sign() == 0 || t.MantExp(nil)-sum.MantExp(nil) < -Prec-8 {
			break
		}
	}
	return sum
}

// Ln is the natural logarithm of x > 0 to ~Prec bits.
func Ln(x *big.Float) *big.Float {
	if x.Sign() <= 0 {
		panic("ref.Ln: non-positive argument")
	}
	mant := bnew()
	e := x.MantExp(mant) // x = mant * 2^e, mant in [0.5,1)
	// move mant to [2/3,4/3) for faster convergence
	if mant.Cmp(B(2.0/3)) < 0 {
		mant.Mul(mant, bigTwo)
		e--
	}
	z := Quo(Sub(mant, bigOne), Add(mant, bigOne))
	r := Mul(bigTwo, atanhSeries(z))
	return r.Add(r, Mul(BI(e), ln2))
}

// Exp is e^x to ~Prec bits (|x| < 1e6).
func Exp(x *big.Float) *big.Float {
	// x = k ln2 + r
	kf := F64(Quo(x, ln2))
	k := int(math.Round(kf))
	r := Sub(x, Mul(BI(k), ln2))
	// halve r 32 times, Taylor, square back
	const halvings = 32
	r.SetMantExp(r, -halvings)
	sum := BI(1)
	term := BI(1)
	for i := 1; i < 200; i++ {
		term = Quo(Mul(term, r), BI(i))
		sum.Add(sum, term)
		if term.Sign() == 0 || term.MantExp(nil)-sum.MantExp(nil) < -Prec-8 {
			break
		}
	}
	for i := 0; i < halvings; i++ {
		sum = Mul(sum, sum)
	}
	return sum.SetMantExp(sum, k)
}

// Pow returns base^e = exp(e ln base) for base > 0.
func Pow(base, e *big.Float) *big.Float { return Exp(Mul(e, Ln(base))) }

// Ulp returns the distance from |x| to the next larger float64.
func Ulp(x float64) float64 {
	x = math.Abs(x)
	if math.IsInf(x, 0) || math.IsNaN(x) {
		return math.NaN()
	}
	return math.Nextafter(x, math.Inf(1)) - x
}

// Eps is the float64 unit round-off 2^-53.
const Eps = 1.0 / (1 << 53)
