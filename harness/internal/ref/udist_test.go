package ref

import "testing"

// TestUExactAgainstSubsets anchors the dynamic programme to the literal
// definition (all subsets) for every tie vector with N <= 10.
func TestUExactAgainstSubsets(t *testing.T) {
	var rec func(rest int, T []int)
	n := 0
	rec = func(rest int, T []int) {
		if rest == 0 {
			if len(T) < 1 {
				return
			}
			N := 0
			for _, x := range T {
				N += x
			}
			for n1 := 1; n1 < N; n1++ {
				u := UExact(n1, N-n1, T)
				want := USubsets(n1, N-n1, T)
				for w, c := range u.Counts {
					if int64(c.Lo) != want[w] || c.Hi != 0 {
						t.Fatalf("T=%v n1=%d 2U=%d: dp %d, subsets %d", T, n1, w, c.Lo, want[w])
					}
				}
				n++
			}
			return
		}
		for p := 1; p <= rest; p++ {
			rec(rest-p, append(append([]int(nil), T...), p))
		}
	}
	for N := 2; N <= 10; N++ {
		rec(N, nil)
	}
	t.Logf("%d (T,n1) distributions compared", n)
}
