package ref

import (
	"math"
	"testing"
)

func TestLnExp(t *testing.T) {
	for _, x := range []float64{1e-300, 1e-5, 0.3, 0.5, 2.0 / 3, 0.99, 1, 1.5, 2, math.E, 10, 12345.678, 1e300} {
		got := F64(Ln(B(x)))
		if d := math.Abs(got - math.Log(x)); d > 4*Ulp(math.Log(x)) {
			t.Errorf("Ln(%g)=%v want %v", x, got, math.Log(x))
		}
		back := F64(Exp(Ln(B(x))))
		if back != x {
			t.Errorf("Exp(Ln(%g))=%v", x, back)
		}
	}
	for _, x := range []float64{-700, -3.2, -1e-9, 0, 1e-12, 0.1, 1, 5.5, 700} {
		got := F64(Exp(B(x)))
		want := math.Exp(x)
		if d := math.Abs(got - want); d > 4*Ulp(want) {
			t.Errorf("Exp(%g)=%v want %v", x, got, want)
		}
	}
	// exactness beyond float64: ln(2^100 + 1) - 100 ln 2 = ln(1 + 2^-100) ~ 2^-100
	one100 := Add(B(math.Ldexp(1, 100)), B(1))
	d := F64(Sub(Ln(one100), Mul(BI(100), ln2)))
	if math.Abs(d/math.Ldexp(1, -100)-1) > 1e-20 {
		t.Errorf("high-precision ln failed: %g", d)
	}
}
