package ref

import (
	"math"

	"gonum.org/v1/gonum/mathext"
)

// TCDF is the Student-t CDF with nu degrees of freedom, evaluated through
// gonum's (cephes-derived) regularized incomplete beta function, which shares
// no code with go-moremath's mathx.BetaInc.
func TCDF(t, nu float64) float64 {
	if math.IsNaN(t) || math.IsNaN(nu) {
		return math.NaN()
	}
	if t == 0 {
		return 0.5
	}
	if math.IsInf(t, 1) {
		return 1
	}
	if math.IsInf(t, -1) {
		return 0
	}
	// upper tail Pr[T > |t|] = 1/2 I_{nu/(nu+t^2)}(nu/2, 1/2), computed without
	// cancellation for either large or small |t|.
	t2 := t * t
	var tail float64
	if t2 < nu {
		// x = nu/(nu+t2) is near 1: use the complementary form
		tail = 0.5 * (1 - mathext.RegIncBeta(0.5, nu/2, t2/(nu+t2)))
		// 1 - I is fine here because I <= ~0.68 when t2 < nu
	} else {
		tail = 0.5 * mathext.RegIncBeta(nu/2, 0.5, nu/(nu+t2))
	}
	if t > 0 {
		return 1 - tail
	}
	return tail
}

// TUpper is Pr[T > t].
func TUpper(t, nu float64) float64 { return TCDF(-t, nu) }

// NormCDF is the standard normal CDF through erfc.
func NormCDF(z float64) float64 { return 0.5 * math.Erfc(-z/math.Sqrt2) }

// NormCDFGamma is the standard normal CDF through the incomplete gamma
// function (independent of erfc): Pr[Z<=z] = 1/2 Q(1/2, z^2/2) for z<0.
func NormCDFGamma(z float64) float64 {
	if z == 0 {
		return 0.5
	}
	q := 0.5 * mathext.GammaIncRegComp(0.5, z*z/2)
	if z < 0 {
		return q
	}
	return 1 - q
}

// NormInv is the standard normal quantile by Newton iteration on erfc
// (independent of the Acklam approximation used by the library).
func NormInv(p float64) float64 {
	if p <= 0 {
		return math.Inf(-1)
	}
	if p >= 1 {
		return math.Inf(1)
	}
	if p > 0.5 {
		return -NormInv(1 - p) // only used for p not within rounding of 1
	}
	// initial guess from the tail asymptote
	t := math.Sqrt(-2 * math.Log(p))
	x := -(t - (2.515517+0.802853*t+0.010328*t*t)/(1+1.432788*t+0.189269*t*t+0.001308*t*t*t))
	for i := 0; i < 60; i++ {
		f := NormCDF(x) - p
		pdf := math.Exp(-x*x/2) / math.Sqrt(2*math.Pi)
		if pdf == 0 {
			break
		}
		// Newton step on log scale keeps it stable in the far tail
		dx := f / pdf
		// Halley correction
		dx = dx / (1 + x*dx/2)
		x -= dx
		if math.Abs(dx) <= 1e-16*math.Max(1, math.Abs(x)) {
			break
		}
	}
	return x
}
