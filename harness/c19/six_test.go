package c19

import (
	"fmt"
	"math/bits"
	"sync/atomic"
	"testing"

	"github.com/aclements/go-moremath/graph/graphalg"

	"verifharness/internal/ev"
)

// The exhaustive sweep over all digraphs stops at 5 nodes (2^25 graphs); the smallest graph on
// which an iteration that stops one pass early goes wrong has 6 (two irreducible regions in
// sequence), and about one random sparse digraph in a million is of that kind. TestSparseSix
// therefore enumerates every 6-node digraph without self-loops whose nodes have at most two
// successors (16^6 = 16.8 million graphs; thorough: also every order of the two successors,
// 26^6 = 309 million), for the first and the last label as root (every labelled graph is
// enumerated, so the other roots are relabellings). To afford that, only IDom is compared, with
// a reference on 6-bit sets (deletion of a node and reachability); a graph on which they differ,
// or on which IDom panics or exceeds the query budget, is handed to the full check, which
// reports it with a replayable case.

// lightGraph is a BiGraph over fixed storage with a query budget.
type lightGraph struct {
	n      int
	out    [6][]int
	in     [6][]int
	inBuf  [6][12]int
	calls  int
	budget int
}

func (g *lightGraph) NumNodes() int { return g.n }
func (g *lightGraph) Out(i int) []int {
	g.tick()
	return g.out[i]
}
func (g *lightGraph) In(i int) []int {
	g.tick()
	return g.in[i]
}
func (g *lightGraph) tick() {
	g.calls++
	if g.calls > g.budget {
		panic("budget")
	}
}

// idomBits is the definitional reference on bit sets.
func idomBits(succ *[6]uint8, n, root int) (idom [6]int) {
	reach := func(skip int) uint8 {
		if skip == root {
			return 0
		}
		var ban uint8
		if skip >= 0 {
			ban = 1 << uint(skip)
		}
		seen := uint8(1) << uint(root)
		frontier := seen
		for frontier != 0 {
			u := bits.TrailingZeros8(frontier)
			frontier &^= 1 << uint(u)
			nx := succ[u] &^ seen &^ ban
			seen |= nx
			frontier |= nx
		}
		return seen
	}
	r := reach(-1)
	var dom [6]uint8 // dom[d]: the nodes d dominates (d itself included)
	for d := 0; d < n; d++ {
		if r>>uint(d)&1 == 1 {
			dom[d] = r &^ reach(d)
		}
	}
	for v := 0; v < n; v++ {
		idom[v] = -1
		if v == root || r>>uint(v)&1 == 0 {
			continue
		}
		best, bestSize := -1, 99
		for d := 0; d < n; d++ {
			if d != v && dom[d]>>uint(v)&1 == 1 {
				// the strict dominators of v form a chain; the closest dominates the fewest nodes
				if s := bits.OnesCount8(dom[d]); s < bestSize {
					best, bestSize = d, s
				}
			}
		}
		idom[v] = best
	}
	return idom
}

func TestSparseSix(t *testing.T) {
	if ev.Replaying() {
		return
	}
	ev.Rule(rule)
	const n = 6
	// the successor lists a node may have: none, one, two (ascending; thorough: both orders)
	var opts [n][][]int
	for u := 0; u < n; u++ {
		opts[u] = append(opts[u], []int{})
		for a := 0; a < n; a++ {
			if a == u {
				continue
			}
			opts[u] = append(opts[u], []int{a})
			for b := 0; b < n; b++ {
				if b == u || b == a || (b < a && !ev.Thorough()) {
					continue
				}
				opts[u] = append(opts[u], []int{a, b})
			}
		}
	}
	k := len(opts[0]) // 16 or 26
	// nodes 0..2 choose the chunk, nodes 3..5 are enumerated inside it
	nchunks := k * k * k
	ev.Parallel(t, nchunks, func(tb ev.TB, ci int) {
		if !ev.MyShare(ci) {
			return
		}
		g := &lightGraph{n: n, budget: 1000 * (n + 12 + 1) * (n + 12 + 1)}
		var succ [n]uint8
		var count int64
		choice := [n]int{ci % k, ci / k % k, ci / (k * k)}
		inner := k * k * k
		// IDom is called directly here, so a loop inside it that makes no adjacency query would
		// hang the sweep: the whole chunk (normally some 10 ms) runs under the watchdog, and the
		// graph being looked at is published so that it can be handed to the full check
		var current atomic.Uint64
		sweep := func() {
			for m := 0; m < inner; m++ {
				choice[3], choice[4], choice[5] = m%k, m/k%k, m/(k*k)
				for u := 0; u < n; u++ {
					g.out[u] = opts[u][choice[u]]
					g.in[u] = g.inBuf[u][:0]
					succ[u] = 0
				}
				for u := 0; u < n; u++ {
					for _, v := range g.out[u] {
						g.in[v] = append(g.in[v], u)
						succ[u] |= 1 << uint(v)
					}
				}
				for _, root := range [2]int{0, n - 1} {
					want := idomBits(&succ, n, root)
					g.calls = 0
					current.Store(uint64(m)<<8 | uint64(root))
					ok := func() (ok bool) {
						defer func() {
							if recover() != nil {
								ok = false
							}
						}()
						got := graphalg.IDom(g, root)
						if len(got) != n {
							return false
						}
						for v := 0; v < n; v++ {
							if got[v] != want[v] {
								return false
							}
						}
						return true
					}()
					count++
					if !ok {
						adj := make([][]int, n)
						for u := 0; u < n; u++ {
							adj[u] = append([]int{}, g.out[u]...)
						}
						checkDom.RunEnum(tb, &Case{Adj: adj, Root: root})
						// the full check disagrees with the light one only if the light reference is wrong
						tb.Fatalf("harness error: IDom differs from the bit-set reference on %v root %d (want %v) but the full check passes", adj, root, want[:])
					}
				}
			}
		}
		hung := func() (hung bool) {
			defer func() {
				if recover() != nil {
					hung = true
				}
			}()
			ev.Watchdog("IDom (sweep over sparse 6-node graphs)", sweep)
			return false
		}()
		if hung {
			cur := current.Load()
			m, root := int(cur>>8), int(cur&0xff)
			choice[3], choice[4], choice[5] = m%k, m/k%k, m/(k*k)
			adj := make([][]int, n)
			for u := 0; u < n; u++ {
				adj[u] = append([]int{}, opts[u][choice[u]]...)
			}
			checkDom.RunEnum(tb, &Case{Adj: adj, Root: root})
			tb.Fatalf("harness error: the sweep stopped (panic or no return) at %v root %d, but the full check passes there", adj, root)
		}
		ev.AddCount("six_node_sparse_graphs_idom_compared", count)
	})
	ev.Exhaustive(fmt.Sprintf("IDom on every 6-node digraph without self-loops and with out-degree <= 2 (%d successor lists per node, %s), roots 0 and 5, against a bit-set reference", k,
		map[bool]string{false: "lists ascending", true: "both orders of a pair"}[ev.Thorough()]))
}
