// Package c19 decides property C19: IDom, Dom and DomFrontier equal the
// definitions of dominance on any flow graph.
package c19

import (
	"fmt"
	"sort"
	"testing"
	"time"

	"github.com/aclements/go-moremath/graph"
	"github.com/aclements/go-moremath/graph/graphalg"
	"pgregory.net/rapid"

	"verifharness/internal/ev"
)

func TestMain(m *testing.M) { ev.Main(m, "C19") }

func TestReplay(t *testing.T) { ev.Replay(t) }

// counting is a BiGraph that counts adjacency queries, so that a
// non-terminating algorithm is cut off (the property claims termination).
type counting struct {
	out, in                          [][]int
	outFlat, inFlat, outCopy, inCopy []int
	calls                            int
	budget                           int
}

func (g *counting) NumNodes() int { return len(g.out) }
func (g *counting) tick() {
	g.calls++
	if g.calls > g.budget {
		ev.BudgetPanic(fmt.Sprintf("more than %d adjacency queries on a graph with %d nodes", g.budget, len(g.out)))
	}
}
func (g *counting) Out(i int) []int { g.tick(); return g.out[i] }
func (g *counting) In(i int) []int  { g.tick(); return g.in[i] }

// newCounting stores the graph the way compact graph types do (the library's own multigraph,
// DomTree): every out-list and every in-list is a window of ONE flat array, so a list's spare
// capacity is the next node's list - an append to a returned list would overwrite it. A copy
// of both arrays is kept; intact() compares.
func newCounting(adj [][]int) *counting {
	n := len(adj)
	preds := make([][]int, n)
	e := 0
	for u := range adj {
		for _, v := range adj[u] {
			preds[v] = append(preds[v], u)
			e++
		}
	}
	flatten := func(lists [][]int) ([][]int, []int) {
		flat := make([]int, 0, e+1)
		off := make([]int, n+1)
		for i, l := range lists {
			off[i] = len(flat)
			flat = append(flat, l...)
		}
		off[n] = len(flat)
		flat = append(flat, -424242) // sentinel behind the last list
		out := make([][]int, n)
		for i := range out {
			out[i] = flat[off[i]:off[i+1]]
		}
		return out, flat
	}
	g := &counting{}
	g.out, g.outFlat = flatten(adj)
	g.in, g.inFlat = flatten(preds)
	g.outCopy, g.inCopy = append([]int(nil), g.outFlat...), append([]int(nil), g.inFlat...)
	g.budget = 1000 * (n + e + 1) * (n + e + 1)
	return g
}

// intact reports whether the graph's storage is as it was built.
func (g *counting) intact() bool {
	return fmt.Sprint(g.outFlat) == fmt.Sprint(g.outCopy) && fmt.Sprint(g.inFlat) == fmt.Sprint(g.inCopy)
}

// reachSkip is breadth-first reachability from root avoiding the node skip.
func reachSkip(adj [][]int, root, skip int) []bool {
	seen := make([]bool, len(adj))
	if root == skip {
		return seen
	}
	seen[root] = true
	q := []int{root}
	for len(q) > 0 {
		u := q[0]
		q = q[1:]
		for _, v := range adj[u] {
			if v != skip && !seen[v] {
				seen[v] = true
				q = append(q, v)
			}
		}
	}
	return seen
}

type Case struct {
	Adj  [][]int `json:"adj"`
	Root int     `json:"root"`
}

// watchdog runs f and reports non-termination. The calls normally take microseconds. A wall
// clock alone cannot tell a loop from a starved process (on a machine loaded 8 times over, a
// 20 s limit did fire on a call that was merely waiting for its turn), so after a grace period
// a sibling goroutine of the same process starts doing fixed units of busy work: the Go
// scheduler shares the process's CPU between the two about equally, so once the sibling has been
// granted 10 s worth of CPU while f still has not returned, f has had its 10 s as well and is
// looping. The property claims termination, so that is a violation; a panic inside f is passed
// on to the caller's goroutine.
func watchdog(what string, f func()) {
	done := make(chan interface{}, 1)
	go func() {
		defer func() { done <- recover() }()
		f()
	}()
	select {
	case r := <-done:
		if r != nil {
			panic(r)
		}
		return
	case <-time.After(2 * time.Second):
	}
	// grace period over: measure the CPU actually granted to a sibling
	stop := make(chan struct{})
	granted := make(chan struct{}, 1)
	go func() {
		const unitsNeeded = 400 // x ~25 ms of busy work
		x := uint64(88172645463325252)
		for u := 0; u < unitsNeeded; u++ {
			for i := 0; i < 12_000_000; i++ {
				x ^= x << 13
				x ^= x >> 7
				x ^= x << 17
			}
			select {
			case <-stop:
				return
			default:
			}
		}
		busySink = x
		granted <- struct{}{}
	}()
	select {
	case r := <-done:
		close(stop)
		if r != nil {
			panic(r)
		}
	case <-granted:
		ev.BudgetPanic(what + " did not return although a sibling goroutine was granted 10 s of CPU meanwhile")
	}
}

var busySink uint64

// refIDom is the definitional reference: reachability r from root, dom[d][v] (d dominates v,
// decided by deleting d and re-running reachability) and the closest strict dominator of every
// reachable node other than the root (-1 elsewhere).
func refIDom(adj [][]int, root int) (want []int, r []bool, dom [][]bool) {
	n := len(adj)
	r = reachSkip(adj, root, -1)
	// dom[d][v]: d dominates v (both reachable): d == v or v is unreachable once d is deleted
	dom = make([][]bool, n)
	for d := 0; d < n; d++ {
		dom[d] = make([]bool, n)
		if !r[d] {
			continue
		}
		rd := reachSkip(adj, root, d)
		for v := 0; v < n; v++ {
			dom[d][v] = r[v] && (d == v || !rd[v])
		}
	}
	want = make([]int, n)
	for v := 0; v < n; v++ {
		want[v] = -1
		if !r[v] || v == root {
			continue
		}
		// the strict dominator that every other strict dominator dominates
		for d := 0; d < n; d++ {
			if d == v || !dom[d][v] {
				continue
			}
			closest := true
			for e := 0; e < n; e++ {
				if e != v && e != d && dom[e][v] && !dom[e][d] {
					closest = false
				}
			}
			if closest {
				want[v] = d
			}
		}
	}
	return
}

func domCheck(adj [][]int, root int) (nt bool, classes []string, err error) {
	n := len(adj)
	g := newCounting(adj)
	var idom []int
	watchdog("IDom", func() { idom = graphalg.IDom(g, root) })
	if len(idom) != n {
		return false, nil, fmt.Errorf("IDom returned %d entries for %d nodes", len(idom), n)
	}
	want, r, dom := refIDom(adj, root)
	for v := 0; v < n; v++ {
		if idom[v] != want[v] {
			return false, nil, fmt.Errorf("IDom[%d] = %d, the closest strict dominator is %d (root %d, reachable %v)", v, idom[v], want[v], root, r[v])
		}
	}
	// Dom tree
	tree := graphalg.Dom(append([]int(nil), idom...))
	if tree.NumNodes() != n {
		return false, nil, fmt.Errorf("Dom: NumNodes = %d", tree.NumNodes())
	}
	outs := make([][]int, n)
	for p := 0; p < n; p++ {
		outs[p] = append([]int(nil), tree.Out(p)...)
		var wantKids []int
		for v := 0; v < n; v++ {
			if idom[v] == p {
				wantKids = append(wantKids, v)
			}
		}
		got := append([]int(nil), outs[p]...)
		sort.Ints(got)
		if fmt.Sprint(got) != fmt.Sprint(wantKids) && (len(got) != 0 || len(wantKids) != 0) {
			return false, nil, fmt.Errorf("Dom: Out(%d) = %v, nodes whose immediate dominator is %d: %v", p, tree.Out(p), p, wantKids)
		}
		if tree.IDom(p) != idom[p] {
			return false, nil, fmt.Errorf("Dom: IDom(%d) = %d, want %d", p, tree.IDom(p), idom[p])
		}
		if idom[p] != -1 {
			if in := tree.In(p); len(in) != 1 || in[0] != idom[p] {
				return false, nil, fmt.Errorf("Dom: In(%d) = %v, want [%d]", p, in, idom[p])
			}
		}
	}
	// child lists must not share storage: appending to one must not disturb another
	for p := 0; p < n; p++ {
		_ = append(tree.Out(p), -99)
		for q := 0; q < n; q++ {
			if fmt.Sprint(tree.Out(q)) != fmt.Sprint(outs[q]) {
				return false, nil, fmt.Errorf("Dom: appending to Out(%d) changed Out(%d) from %v to %v", p, q, outs[q], tree.Out(q))
			}
		}
	}
	// dominance frontier
	var df, df2 [][]int
	g.calls = 0
	watchdog("DomFrontier", func() { df = graphalg.DomFrontier(g, root, append([]int(nil), idom...)) })
	g.calls = 0
	watchdog("DomFrontier", func() { df2 = graphalg.DomFrontier(g, root, nil) })
	if len(df) != n || len(df2) != n {
		return false, nil, fmt.Errorf("DomFrontier returned %d / %d lists for %d nodes", len(df), len(df2), n)
	}
	rootIn := len(g.in[root])
	join, unreachablePred, selfLoop, parallel := false, false, false, false
	for x := 0; x < n; x++ {
		a, b := append([]int(nil), df[x]...), append([]int(nil), df2[x]...)
		sort.Ints(a)
		sort.Ints(b)
		if fmt.Sprint(a) != fmt.Sprint(b) {
			return false, nil, fmt.Errorf("DomFrontier with idom == nil gives %v for node %d, with the explicit idom %v", df2[x], x, df[x])
		}
		for i := 1; i < len(a); i++ {
			if a[i] == a[i-1] {
				return false, nil, fmt.Errorf("DomFrontier[%d] = %v lists a node twice", x, df[x])
			}
		}
		if !r[x] {
			continue
		}
		var wantDF []int
		for y := 0; y < n; y++ {
			if !r[y] {
				continue
			}
			in := false
			for _, p := range g.in[y] {
				if r[p] && dom[x][p] && !(dom[x][y] && x != y) {
					in = true
				}
			}
			if in {
				wantDF = append(wantDF, y)
			}
		}
		strip := func(xs []int) []int {
			if rootIn != 1 {
				return xs
			}
			var out []int
			for _, v := range xs {
				if v != root {
					out = append(out, v)
				}
			}
			return out
		}
		if ga, wa := strip(a), strip(wantDF); fmt.Sprint(ga) != fmt.Sprint(wa) {
			return false, nil, fmt.Errorf("DomFrontier[%d] = %v, by definition %v (root %d with %d incoming edges)", x, a, wantDF, root, rootIn)
		}
	}
	for y := 0; y < n; y++ {
		if !r[y] {
			continue
		}
		rp, seen := 0, map[int]bool{}
		for _, p := range g.in[y] {
			if r[p] {
				rp++
			} else {
				unreachablePred = true
			}
			if seen[p] {
				parallel = true
			}
			seen[p] = true
			if p == y {
				selfLoop = true
			}
		}
		if rp >= 2 {
			join = true
		}
	}
	if unreachablePred {
		classes = append(classes, "unreachable-pred-of-reachable-node")
	}
	if selfLoop {
		classes = append(classes, "self-loop")
	}
	if parallel {
		classes = append(classes, "parallel-edges")
	}
	if !g.intact() {
		return false, nil, fmt.Errorf("the calls for root %d wrote into the graph's adjacency storage: out %v -> %v, in %v -> %v", root, g.outCopy, g.outFlat, g.inCopy, g.inFlat)
	}
	// The same graph value is then asked about other roots (what was unreachable becomes the
	// flow graph): the answers must be those of the definition again, whatever the earlier
	// calls did with the graph.
	var others []int
	if n <= 4 {
		for r2 := 0; r2 < n; r2++ {
			if r2 != root {
				others = append(others, r2)
			}
		}
	} else {
		others = []int{(root + 1) % n, n - 1, (root + n/2) % n}
	}
	for _, r2 := range others {
		if r2 == root {
			continue
		}
		var idom2 []int
		g.calls = 0
		watchdog("IDom", func() { idom2 = graphalg.IDom(g, r2) })
		want2, _, _ := refIDom(adj, r2)
		if fmt.Sprint(idom2) != fmt.Sprint(want2) {
			return false, nil, fmt.Errorf("after the calls for root %d, IDom of the same graph for root %d = %v, the definition gives %v", root, r2, idom2, want2)
		}
		g.calls = 0
		watchdog("DomFrontier", func() { graphalg.DomFrontier(g, r2, nil) })
		classes = append(classes, "same-graph-other-root")
	}
	return join, classes, nil
}

var checkDom = ev.Register("dominators", func(c *Case) ev.Outcome {
	n := len(c.Adj)
	if n == 0 || c.Root < 0 || c.Root >= n {
		return ev.Fail("harness error: graph")
	}
	for _, l := range c.Adj {
		for _, v := range l {
			if v < 0 || v >= n {
				return ev.Fail("harness error: edge")
			}
		}
	}
	nt, classes, err := domCheck(c.Adj, c.Root)
	if err != nil {
		return ev.Outcome{Err: err}
	}
	return ev.OK(nt, classes...)
})

// SmallCase as in C18: adjacency matrix bits, list presentation, root.
type SmallCase struct {
	N       int    `json:"n"`
	Mask    uint64 `json:"mask"`
	Variant int    `json:"variant"` // 0 ascending lists, 1 every edge doubled (parallel edges)
	Root    int    `json:"root"`
}

func (c *SmallCase) adj() [][]int {
	adj := make([][]int, c.N)
	for u := 0; u < c.N; u++ {
		for v := 0; v < c.N; v++ {
			if c.Mask>>(uint(u*c.N+v))&1 == 1 {
				adj[u] = append(adj[u], v)
				if c.Variant == 1 {
					adj[u] = append(adj[u], v)
				}
			}
		}
	}
	return adj
}

var checkSmall = ev.Register("dominators-small", func(c *SmallCase) ev.Outcome {
	if c.N < 1 || c.N > 6 || c.Root < 0 || c.Root >= c.N {
		return ev.Fail("harness error: small graph")
	}
	adj := c.adj()
	nt, classes, err := domCheck(adj, c.Root)
	if err != nil {
		return ev.Outcome{Err: fmt.Errorf("graph %v root %d: %w", adj, c.Root, err)}
	}
	return ev.OK(nt, append(classes, "small-exhaustive")...)
})

// LadderCase: a chain of N diamonds a_i -> {b_i, c_i} -> a_{i+1} (node ids 3i, 3i+1, 3i+2),
// optionally with a back edge from every a_{i+1} to a_i. Dominators are known in closed
// form, so graphs far beyond 1024 nodes (where the traversal's mark set grows) can be checked.
type LadderCase struct {
	N    int  `json:"n"`
	Back bool `json:"back"`
}

var checkLadder = ev.Register("dominators-ladder", func(c *LadderCase) ev.Outcome {
	if c.N < 1 || c.N > 100000 {
		return ev.Fail("harness error: ladder size")
	}
	n := 3*c.N + 1
	adj := make([][]int, n)
	for i := 0; i < c.N; i++ {
		a, b, cc, next := 3*i, 3*i+1, 3*i+2, 3*i+3
		adj[a] = []int{b, cc}
		adj[b] = []int{next}
		adj[cc] = []int{next}
		if c.Back {
			adj[next] = append(adj[next], a)
		}
	}
	g := newCounting(adj)
	var idom []int
	var df [][]int
	watchdog("IDom", func() { idom = graphalg.IDom(g, 0) })
	g.calls = 0
	watchdog("DomFrontier", func() { df = graphalg.DomFrontier(g, 0, idom) })
	for v := 0; v < n; v++ {
		want := -1
		if v > 0 {
			want = 3 * ((v - 1) / 3) // b_i, c_i and a_{i+1} are all immediately dominated by a_i
		}
		if idom[v] != want {
			return ev.Fail("ladder of %d diamonds: IDom[%d] = %d, want %d", c.N, v, idom[v], want)
		}
	}
	for i := 0; i < c.N; i++ {
		for _, v := range []int{3*i + 1, 3*i + 2} {
			if len(df[v]) != 1 || df[v][0] != 3*i+3 {
				return ev.Fail("ladder of %d diamonds: DomFrontier[%d] = %v, want [%d]", c.N, v, df[v], 3*i+3)
			}
		}
	}
	return ev.OK(n >= 1024, "ladder")
})

const rule = "Exhaustive: every digraph on <=4 nodes (thorough 5) x every root, with single and doubled (parallel) edges. Random: rapid " +
	"graphs up to 40 nodes: random multigraphs from tree-like to dense, structured reducible flow graphs (nested if/loop " +
	"builders), irreducible two-entry loops, unreachable nodes feeding reachable joins and reachable nodes feeding unreachable " +
	"ones. Oracle: d dominates v iff v is reachable and (d=v or v is unreachable with d deleted); IDom = the strict dominator " +
	"dominated by all others, -1 for root/unreachable; Dom inverts IDom (child lists must not share storage); DomFrontier as " +
	"sets by definition (root membership ignored when the root has exactly one incoming edge), idom==nil path identical, no " +
	"duplicates. Panics are violations; adjacency queries are counted and a budget of 1000*(V+E+1)^2 decides termination. " +
	"Plus ladders of up to 21846 diamonds (65539 nodes, dominators in closed form) so that node ids cross the traversal mark set's growth steps. Panics and a 20 s watchdog per call (normal: microseconds) also decide termination. Non-trivial: a reachable node with >=2 reachable predecessors exists. Later additions: IDom on every 6-node digraph without self-loops and with out-degree <= 2 against a bit-set reference (TestSparseSix, under a watchdog); sparse 20..40-node graphs; slow-convergence regions (a chain entered a second time at its far end, retreating edges); other roots on the same graph value; CSR storage compared afterwards."

func TestSmallExhaustive(t *testing.T) {
	if ev.Replaying() {
		return
	}
	ev.Rule(rule)
	maxN := 4
	if ev.Thorough() {
		maxN = 5
	}
	for n := 1; n <= maxN; n++ {
		total := 1 << uint(n*n)
		chunk := 4096
		nchunks := (total + chunk - 1) / chunk
		nn := n
		ev.Parallel(t, nchunks, func(tb ev.TB, ci int) {
			if !ev.MyShare(ci) {
				return
			}
			for m := ci * chunk; m < (ci+1)*chunk && m < total; m++ {
				for variant := 0; variant < 2; variant++ {
					if nn == 5 && variant == 1 && m%16 != 0 {
						continue
					}
					for root := 0; root < nn; root++ {
						if nn == 5 && root != 0 && root != 4 {
							// every labelled graph is enumerated, so the other roots are relabellings of
							// these; the first and last label keep the index-order-dependent paths covered
							continue
						}
						checkSmall.RunEnum(tb, &SmallCase{N: nn, Mask: uint64(m), Variant: variant, Root: root})
					}
				}
			}
		})
	}
	ev.Exhaustive(fmt.Sprintf("all digraphs on 1..%d nodes x every root, single and doubled edges (5 nodes: roots 0 and 4, doubled edges sampled 1 in 16)", maxN))
}

// flow builds a reducible flow graph from nested if / loop / sequence
// constructs and then decorates it.
type builder struct {
	adj [][]int
	t   *rapid.T
}

func (b *builder) node() int {
	b.adj = append(b.adj, []int{})
	return len(b.adj) - 1
}
func (b *builder) edge(u, v int) { b.adj[u] = append(b.adj[u], v) }

// region builds a single-entry single-exit region and returns (entry, exit).
func (b *builder) region(depth int) (int, int) {
	kind := 0
	if depth > 0 && len(b.adj) < 30 {
		kind = rapid.IntRange(0, 3).Draw(b.t, "construct")
	}
	switch kind {
	case 1: // if-then-else
		h, j := b.node(), b.node()
		e1, x1 := b.region(depth - 1)
		e2, x2 := b.region(depth - 1)
		b.edge(h, e1)
		b.edge(h, e2)
		b.edge(x1, j)
		b.edge(x2, j)
		return h, j
	case 2: // loop
		h, x := b.node(), b.node()
		e, bx := b.region(depth - 1)
		b.edge(h, e)
		b.edge(bx, h)
		b.edge(h, x)
		return h, x
	case 3: // sequence
		e1, x1 := b.region(depth - 1)
		e2, x2 := b.region(depth - 1)
		b.edge(x1, e2)
		return e1, x2
	}
	v := b.node()
	return v, v
}

// slowRegion appends to adj a two-entry region hanging off the node entry: a forward chain
// a_1..a_k, a second path b_1..b_m from the entry that joins the chain near its far end, and
// retreating edges a_j -> a_i (mostly short hops). Every a_i is then dominated by the entry
// alone, but an iterative algorithm learns that at a_k first and has to carry it backwards
// along the retreating edges, one step per sweep: the graphs on which "sweep until nothing
// changes" needs many sweeps, and on which a bound on the number of sweeps, or a work-list of
// the nodes that "can still change", has to be exactly right. It returns the far end a_k.
func slowRegion(t *rapid.T, adj *[][]int, entry int) int {
	k := rapid.IntRange(3, 10).Draw(t, "chain")
	m := rapid.IntRange(1, 4).Draw(t, "bypass")
	base := len(*adj)
	for i := 0; i < k+m; i++ {
		*adj = append(*adj, []int{})
	}
	a := func(i int) int { return base + i - 1 }     // a_1..a_k
	b := func(j int) int { return base + k + j - 1 } // b_1..b_m
	edge := func(u, v int) { (*adj)[u] = append((*adj)[u], v) }
	edge(entry, a(1))
	for i := 1; i < k; i++ {
		edge(a(i), a(i+1))
	}
	edge(entry, b(1))
	for j := 1; j < m; j++ {
		edge(b(j), b(j+1))
	}
	edge(b(m), a(rapid.IntRange((k+1)/2, k).Draw(t, "joinAt")))
	for r := rapid.IntRange(1, k).Draw(t, "retreating"); r > 0; r-- {
		j := rapid.IntRange(2, k).Draw(t, "from")
		i := j - rapid.SampledFrom([]int{1, 1, 2, 3}).Draw(t, "hop")
		if rapid.IntRange(0, 4).Draw(t, "longHop") == 0 {
			i = rapid.IntRange(1, j-1).Draw(t, "to")
		}
		if i < 1 {
			i = 1
		}
		edge(a(j), a(i))
	}
	if rapid.Bool().Draw(t, "backIntoBypass") {
		edge(a(rapid.IntRange(1, k).Draw(t, "bfrom")), b(rapid.IntRange(1, m).Draw(t, "bto")))
	}
	return a(k)
}

func drawGraph(t *rapid.T) (adj [][]int, root int) {
	switch rapid.IntRange(0, 5).Draw(t, "family") {
	case 5: // one to three slow-convergence regions in sequence, out-lists shuffled, ids relabelled
		adj = [][]int{{}}
		at := 0
		for r := rapid.IntRange(1, 3).Draw(t, "regions"); r > 0; r-- {
			end := slowRegion(t, &adj, at)
			at = end
			if rapid.Bool().Draw(t, "hangOffMiddle") {
				at = rapid.IntRange(1, len(adj)-1).Draw(t, "hangAt")
			}
		}
		n := len(adj)
		relabel := make([]int, n)
		for i := range relabel {
			relabel[i] = i
		}
		if rapid.Bool().Draw(t, "relabel") {
			relabel = rapid.Permutation(relabel).Draw(t, "labels")
		}
		out := make([][]int, n)
		for u := range adj {
			l := make([]int, len(adj[u]))
			for i, v := range adj[u] {
				l[i] = relabel[v]
			}
			if len(l) > 1 && rapid.Bool().Draw(t, "shuffleOut") {
				l = rapid.Permutation(l).Draw(t, "outOrder")
			}
			out[relabel[u]] = l
		}
		return out, relabel[0]
	case 4: // sparse random graphs of 20..40 nodes with out-degree about 2 and self-loops: long
		// dominator chains through irreducible regions, where the iterative algorithm needs
		// several passes and the order of the predecessor lists matters
		n := rapid.IntRange(20, 40).Draw(t, "nsparse")
		adj = make([][]int, n)
		for u := range adj {
			adj[u] = []int{}
			for k := rapid.SampledFrom([]int{2, 2, 1, 3}).Draw(t, "sdeg"); k > 0; k-- {
				v := rapid.IntRange(0, n-1).Draw(t, "sto")
				if rapid.IntRange(0, 9).Draw(t, "selfLoop") == 0 {
					v = u
				}
				adj[u] = append(adj[u], v)
			}
		}
		return adj, rapid.IntRange(0, n-1).Draw(t, "sroot")
	case 0: // structured reducible, possibly made irreducible and with unreachable parts
		b := &builder{t: t}
		root, _ = b.region(rapid.IntRange(1, 4).Draw(t, "depth"))
		n := len(b.adj)
		if rapid.Bool().Draw(t, "irreducible") && n >= 3 {
			// a second entry into some region: an edge from the root's side into an arbitrary node
			for k := rapid.IntRange(1, 3).Draw(t, "extra"); k > 0; k-- {
				b.edge(rapid.IntRange(0, n-1).Draw(t, "from"), rapid.IntRange(0, n-1).Draw(t, "into"))
			}
		}
		if rapid.Bool().Draw(t, "unreachable") {
			// unreachable nodes that feed reachable joins, and reachable nodes feeding them... no:
			// edges INTO an unreachable node from a reachable one would make it reachable, so only
			// unreachable -> reachable and unreachable -> unreachable edges are added
			k := rapid.IntRange(1, 4).Draw(t, "nunreach")
			first := len(b.adj)
			for i := 0; i < k; i++ {
				b.node()
			}
			for u := first; u < first+k; u++ {
				for e := rapid.IntRange(1, 3).Draw(t, "uedges"); e > 0; e-- {
					b.edge(u, rapid.IntRange(0, first+k-1).Draw(t, "uto"))
				}
			}
		}
		return b.adj, root
	default: // random multigraph
		n := rapid.IntRange(1, 40).Draw(t, "n")
		if rapid.Bool().Draw(t, "small") {
			n = rapid.IntRange(1, 8).Draw(t, "nsmall")
		}
		maxDeg := rapid.SampledFrom([]int{2, 1, 3, n, 5}).Draw(t, "maxdeg")
		adj = make([][]int, n)
		for u := range adj {
			adj[u] = []int{}
			for k := rapid.IntRange(0, maxDeg).Draw(t, "deg"); k > 0; k-- {
				adj[u] = append(adj[u], rapid.IntRange(0, n-1).Draw(t, "to"))
			}
		}
		return adj, rapid.IntRange(0, n-1).Draw(t, "root")
	}
}

func TestRandom(t *testing.T) {
	ev.Rule(rule)
	ev.Rapid(t, "c19-random", 24000, 480000, func(rt *rapid.T) {
		adj, root := drawGraph(rt)
		checkDom.Run(rt, &Case{Adj: adj, Root: root})
	})
}

func TestLadders(t *testing.T) {
	ev.Rule(rule)
	ev.Rapid(t, "c19-ladder", 10, 320, func(rt *rapid.T) {
		c := &LadderCase{N: rapid.SampledFrom([]int{341, 342, 400, 683, 1000, 1366, 5000, 21845, 21846}).Draw(rt, "n"), Back: rapid.Bool().Draw(rt, "back")}
		checkLadder.Run(rt, c)
	})
}

// FuzzDom is the native coverage-guided front end (thorough tier).
func FuzzDom(f *testing.F) {
	f.Add(make([]byte, 96))
	f.Add([]byte("dom seed \x01\x03\x01\x02\x00\x01\x02\x02\x02\x00\x01\x01\x03\x04\x05\x06\x07\x08\x09\x0a\x0b\x0c\x0d\x0e\x0f\x10\xff\xfe\xfd"))
	f.Fuzz(rapid.MakeFuzz(func(rt *rapid.T) {
		adj, root := drawGraph(rt)
		checkDom.Run(rt, &Case{Adj: adj, Root: root})
	}))
}

var _ = graph.IntGraph(nil)
