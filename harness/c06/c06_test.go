// Package c06 decides property C06: binomial and hypergeometric PMF/CDF equal
// the exact rational probabilities.
package c06

import (
	"fmt"
	"math"
	"math/big"
	"testing"

	"github.com/aclements/go-moremath/stats"
	"pgregory.net/rapid"

	"verifharness/internal/ev"
	"verifharness/internal/gen"
	"verifharness/internal/ref"
)

func TestMain(m *testing.M) { ev.Main(m, "C06") }

func TestReplay(t *testing.T) { ev.Replay(t) }

const tol = 1e-10

// floorClamped is floor(k) as an int, clamped (as a float, before converting: the conversion
// of an out-of-range float is implementation-specific) to +-2^40, far outside every support.
func floorClamped(k float64) int {
	f := math.Floor(k)
	if f > 0x1p40 {
		return 1 << 40
	}
	if f < -0x1p40 {
		return -(1 << 40)
	}
	return int(f)
}

// probes returns every integer from lo-2 to hi+2 and the half-integers between.
func probes(lo, hi int) []float64 {
	var ks []float64
	for k := lo - 2; k <= hi+2; k++ {
		// the integer, the half-integer above it, and the floats adjacent to the integer
		// (floor(k) semantics must hold right up to the integer)
		ks = append(ks, float64(k), float64(k)+0.5, math.Nextafter(float64(k), math.Inf(-1)), math.Nextafter(float64(k), math.Inf(1)))
	}
	// and far outside the support, beyond the range of int32, int64 and float64
	return append(ks, -5e-324, -1e-17, -1e-100, 5e-324, math.Copysign(0, -1),
		1e6, 3e9, 1e18, 0x1p63, 1e19, 1e300, math.MaxFloat64, math.Inf(1), -3e9, -0x1p63, -1e19, -1e300, math.Inf(-1))
}

// ---------------------------------------------------------------- hypergeometric

type HCase struct {
	N     int       `json:"n"`
	K     int       `json:"k"`
	Draws int       `json:"draws"`
	Ks    []float64 `json:"ks,omitempty"` // nil: the full probe grid
}

func ratio(num, den *big.Int) float64 {
	f, _ := new(big.Rat).SetFrac(num, den).Float64()
	return f
}

var checkHyper = ev.Register("hypergeometric", func(c *HCase) ev.Outcome {
	if c.N < 2 || c.K < 0 || c.K > c.N || c.Draws < 0 || c.Draws > c.N {
		return ev.Fail("harness error: parameters")
	}
	d := stats.HypergeometicDist{N: c.N, K: c.K, Draws: c.Draws}
	lo, hi := c.Draws+c.K-c.N, c.Draws
	if lo < 0 {
		lo = 0
	}
	if c.K < hi {
		hi = c.K
	}
	if l, h := d.Bounds(); l != float64(lo) || h != float64(hi) {
		return ev.Fail("Bounds = %v,%v, support is %d..%d", l, h, lo, hi)
	}
	if d.Step() != 1 {
		return ev.Fail("Step = %v", d.Step())
	}
	// exact masses as integers over the common denominator C(N,Draws)
	den := new(big.Int).Binomial(int64(c.N), int64(c.Draws))
	mass := map[int]*big.Int{}
	cum := map[int]*big.Int{}
	acc := new(big.Int)
	m1, m2 := new(big.Int), new(big.Int) // sum k*mass, sum k^2*mass
	for k := lo; k <= hi; k++ {
		m := new(big.Int).Binomial(int64(c.K), int64(k))
		m.Mul(m, new(big.Int).Binomial(int64(c.N-c.K), int64(c.Draws-k)))
		mass[k] = m
		acc = new(big.Int).Add(acc, m)
		cum[k] = acc
		km := new(big.Int).Mul(m, big.NewInt(int64(k)))
		m1.Add(m1, km)
		m2.Add(m2, km.Mul(km, big.NewInt(int64(k))))
	}
	if acc.Cmp(den) != 0 {
		return ev.Fail("harness error: Vandermonde identity fails")
	}
	ks := c.Ks
	if ks == nil {
		ks = probes(lo, hi)
	}
	nt := false
	for _, k := range ks {
		ki := floorClamped(k)
		wantP, wantC := 0.0, 0.0
		if ki >= lo && ki <= hi {
			wantP = ratio(mass[ki], den)
		}
		switch {
		case ki < lo:
			wantC = 0
		case ki >= hi:
			wantC = 1
		default:
			wantC = ratio(cum[ki], den)
		}
		gotP, gotC := d.PMF(k), d.CDF(k)
		if !(math.Abs(gotP-wantP) <= tol) {
			return ev.Fail("PMF(%v) = %.15g, exact %.15g", k, gotP, wantP)
		}
		if !(math.Abs(gotC-wantC) <= tol) {
			return ev.Fail("CDF(%v) = %.15g, exact %.15g", k, gotC, wantC)
		}
		ev.MaxErr("hyper-PMF", math.Abs(gotP-wantP)/tol)
		ev.MaxErr("hyper-CDF", math.Abs(gotC-wantC)/tol)
		if (ki < lo || ki > hi) && gotP != 0 {
			return ev.Fail("PMF(%v) = %v outside the support %d..%d", k, gotP, lo, hi)
		}
		if ki < lo && gotC != 0 {
			return ev.Fail("CDF(%v) = %v below the support", k, gotC)
		}
		if ki >= hi && gotC != 1 {
			return ev.Fail("CDF(%v) = %v at or above the top of the support", k, gotC)
		}
		if hi > lo && wantP > 0 {
			nt = true
		}
	}
	// moments
	mean := ratio(m1, den)
	ex2 := new(big.Rat).SetFrac(m2, den)
	mu := new(big.Rat).SetFrac(m1, den)
	v, _ := new(big.Rat).Sub(ex2, new(big.Rat).Mul(mu, mu)).Float64()
	if !(math.Abs(d.Mean()-mean) <= 1e-12*math.Abs(mean)) {
		return ev.Fail("Mean = %.17g, first moment %.17g", d.Mean(), mean)
	}
	if !(math.Abs(d.Variance()-v) <= 1e-12*math.Abs(v)) {
		return ev.Fail("Variance = %.17g, second central moment %.17g", d.Variance(), v)
	}
	cl := "hyper"
	if c.Ks == nil {
		cl = "hyper-grid"
	}
	return ev.OK(nt, cl)
})

// ---------------------------------------------------------------- binomial

type BCase struct {
	N  int       `json:"n"`
	P  float64   `json:"p"`
	Ks []float64 `json:"ks,omitempty"`
}

var checkBinom = ev.Register("binomial", func(c *BCase) ev.Outcome {
	if c.N < 0 || !(c.P >= 0 && c.P <= 1) {
		return ev.Fail("harness error: parameters")
	}
	d := stats.BinomialDist{N: c.N, P: c.P}
	if l, h := d.Bounds(); l != 0 || h != float64(c.N) {
		return ev.Fail("Bounds = %v,%v", l, h)
	}
	if d.Step() != 1 {
		return ev.Fail("Step = %v", d.Step())
	}
	// exact masses in 400-bit floats: C(N,k) p^k (1-p)^(N-k) with p the exact value of the float
	p := ref.B(c.P)
	q := ref.Sub(ref.BI(1), p)
	pp := make([]*big.Float, c.N+1)
	qq := make([]*big.Float, c.N+1)
	pp[0], qq[0] = ref.BI(1), ref.BI(1)
	for i := 1; i <= c.N; i++ {
		pp[i] = ref.Mul(pp[i-1], p)
		qq[i] = ref.Mul(qq[i-1], q)
	}
	mass := make([]*big.Float, c.N+1)
	cum := make([]*big.Float, c.N+1)
	acc := ref.BI(0)
	m1, m2 := ref.BI(0), ref.BI(0)
	for k := 0; k <= c.N; k++ {
		ch := new(big.Float).SetPrec(ref.Prec).SetInt(new(big.Int).Binomial(int64(c.N), int64(k)))
		mass[k] = ref.Mul(ch, ref.Mul(pp[k], qq[c.N-k]))
		acc = ref.Add(acc, mass[k])
		cum[k] = acc
		km := ref.Mul(mass[k], ref.BI(k))
		m1 = ref.Add(m1, km)
		m2 = ref.Add(m2, ref.Mul(km, ref.BI(k)))
	}
	ks := c.Ks
	if ks == nil {
		ks = probes(0, c.N)
	}
	nt := false
	for _, k := range ks {
		ki := floorClamped(k)
		wantP, wantC := 0.0, 0.0
		if ki >= 0 && ki <= c.N {
			wantP = ref.F64(mass[ki])
		}
		switch {
		case ki < 0:
			wantC = 0
		case ki >= c.N:
			wantC = 1
		default:
			wantC = ref.F64(cum[ki])
		}
		gotP, gotC := d.PMF(k), d.CDF(k)
		if !(math.Abs(gotP-wantP) <= tol) {
			return ev.Fail("PMF(%v) = %.15g, exact %.15g", k, gotP, wantP)
		}
		if !(math.Abs(gotC-wantC) <= tol) {
			return ev.Fail("CDF(%v) = %.15g, exact %.15g", k, gotC, wantC)
		}
		ev.MaxErr("binom-PMF", math.Abs(gotP-wantP)/tol)
		ev.MaxErr("binom-CDF", math.Abs(gotC-wantC)/tol)
		if (ki < 0 || ki > c.N) && gotP != 0 {
			return ev.Fail("PMF(%v) = %v outside the support", k, gotP)
		}
		if ki < 0 && gotC != 0 {
			return ev.Fail("CDF(%v) = %v below the support", k, gotC)
		}
		if ki >= c.N && gotC != 1 {
			return ev.Fail("CDF(%v) = %v at or above N", k, gotC)
		}
		if c.N >= 1 && wantP > 0 {
			nt = true
		}
	}
	mean := ref.F64(m1)
	v := ref.F64(ref.Sub(m2, ref.Mul(m1, m1)))
	if !(math.Abs(d.Mean()-mean) <= 1e-12*math.Abs(mean)) {
		return ev.Fail("Mean = %.17g, first moment %.17g", d.Mean(), mean)
	}
	if !(math.Abs(d.Variance()-v) <= 1e-12*math.Abs(v)+1e-300) {
		return ev.Fail("Variance = %.17g, second central moment %.17g", d.Variance(), v)
	}
	na := d.NormalApprox()
	if na.Mu != d.Mean() || na.Sigma != math.Sqrt(d.Variance()) {
		return ev.Fail("NormalApprox = %+v, want {Mean, sqrt(Variance)} = {%v, %v}", na, d.Mean(), math.Sqrt(d.Variance()))
	}
	cl := "binom"
	if c.Ks == nil {
		cl = "binom-grid"
	}
	return ev.OK(nt, cl)
})

const rule = "HypergeometicDist: exhaustively every (N,K,Draws) with 2<=N<=N* at every integer and half-integer k from 2 below to " +
	"2 above the support; BinomialDist: every N<=72 (thorough 120) x P in {i/100} + {0,1,1e-12,1-1e-12}, same k grid; rapid adds " +
	"N up to 1000 with P uniform / j/N / tiny and random k. Oracle: exact big-integer masses over the common denominator " +
	"(hypergeometric) and 400-bit masses from the exact value of P (binomial): PMF and CDF to 1e-10, exact 0 outside / below, " +
	"exact 1 from the top, floor(k) semantics, Bounds, Step, Mean and Variance vs the first two moments of the exact PMF (1e-12 " +
	"relative), NormalApprox. Non-trivial: support has >=2 points and PMF>0 at a probe. distinct by construction (enumerated) " +
	"or by canonical JSON (random)."

func TestHyperExhaustive(t *testing.T) {
	if ev.Replaying() {
		return
	}
	ev.Rule(rule)
	maxN := 40
	if ev.Thorough() {
		maxN = 80
	}
	var cases []*HCase
	for N := 2; N <= maxN; N++ {
		for K := 0; K <= N; K++ {
			for D := 0; D <= N; D++ {
				cases = append(cases, &HCase{N: N, K: K, Draws: D})
			}
		}
	}
	ev.Parallel(t, len(cases), func(tb ev.TB, i int) {
		if ev.MyShare(i) {
			checkHyper.RunEnum(tb, cases[i])
		}
	})
	ev.Exhaustive(fmt.Sprintf("all hypergeometric (N,K,Draws) with 2<=N<=%d on the full k grid", maxN))
}

func TestBinomExhaustive(t *testing.T) {
	if ev.Replaying() {
		return
	}
	ev.Rule(rule)
	maxN := 72 // past 62 (the largest n whose central coefficient fits 63 bits) and 66 (64 bits)
	if ev.Thorough() {
		maxN = 120
	}
	ps := []float64{0, 1, 1e-12, 1 - 1e-12}
	for i := 1; i < 100; i++ {
		ps = append(ps, float64(i)/100)
	}
	var cases []*BCase
	for N := 0; N <= maxN; N++ {
		for _, p := range ps {
			cases = append(cases, &BCase{N: N, P: p})
		}
	}
	ev.Parallel(t, len(cases), func(tb ev.TB, i int) {
		if ev.MyShare(i) {
			checkBinom.RunEnum(tb, cases[i])
		}
	})
	ev.Exhaustive(fmt.Sprintf("all binomial N<=%d x 103 values of P on the full k grid", maxN))
}

func TestRandom(t *testing.T) {
	ev.Rule(rule)
	ev.Rapid(t, "c06-binom", 1500, 20000, func(rt *rapid.T) {
		c := &BCase{N: rapid.IntRange(0, 1000).Draw(rt, "n")}
		switch rapid.IntRange(0, 4).Draw(rt, "pkind") {
		case 0:
			c.P = float64(rapid.IntRange(0, c.N).Draw(rt, "j")) / math.Max(1, float64(c.N))
		case 1:
			c.P = gen.LogUniform(rt, 1e-12, 0.1, "ptiny")
		case 2:
			c.P = 1 - gen.LogUniform(rt, 1e-12, 0.1, "pnear1")
		default:
			c.P = rapid.Float64Range(0, 1).Draw(rt, "p")
		}
		mean := float64(c.N) * c.P
		sd := math.Sqrt(mean*(1-c.P)) + 1
		for i := 0; i < 12; i++ {
			switch rapid.IntRange(0, 3).Draw(rt, "kkind") {
			case 0:
				c.Ks = append(c.Ks, float64(rapid.IntRange(-2, c.N+2).Draw(rt, "k")))
			case 1:
				c.Ks = append(c.Ks, math.Round(mean+rapid.Float64Range(-6, 6).Draw(rt, "kz")*sd))
			case 2:
				c.Ks = append(c.Ks, mean+rapid.Float64Range(-6, 6).Draw(rt, "kz")*sd)
			default:
				c.Ks = append(c.Ks, rapid.SampledFrom([]float64{0, 1, float64(c.N) - 1, float64(c.N), float64(c.N) + 0.5, -0.5, -1e-17, -5e-324}).Draw(rt, "kedge"))
			}
			if rapid.IntRange(0, 5).Draw(rt, "justBelow") == 0 {
				// one ulp below an integer (powers of two are where k+1 rounds up)
				j := float64(rapid.IntRange(0, c.N+1).Draw(rt, "jb"))
				if rapid.Bool().Draw(rt, "pow2") {
					j = math.Exp2(float64(rapid.IntRange(0, 10).Draw(rt, "e2")))
				}
				c.Ks[len(c.Ks)-1] = math.Nextafter(j, math.Inf(-1))
			}
		}
		checkBinom.Run(rt, c)
	})
	ev.Rapid(t, "c06-hyper", 1500, 20000, func(rt *rapid.T) {
		N := rapid.IntRange(2, 1000).Draw(rt, "n")
		c := &HCase{N: N, K: rapid.IntRange(0, N).Draw(rt, "k"), Draws: rapid.IntRange(0, N).Draw(rt, "draws")}
		bigBalanced := rapid.IntRange(0, 5).Draw(rt, "bigBalanced") == 0
		if bigBalanced {
			// the largest populations with K and Draws both near N/2: the widest supports, the
			// smallest end masses (1e-300) and the largest ratios between neighbouring terms
			c.N = rapid.IntRange(850, 1000).Draw(rt, "nbig")
			c.K = c.N/2 + rapid.IntRange(-c.N/5, c.N/5).Draw(rt, "kOff")
			c.Draws = c.N/2 + rapid.IntRange(-c.N/5, c.N/5).Draw(rt, "dOff")
		}
		lo, hi := c.Draws+c.K-c.N, c.Draws
		if lo < 0 {
			lo = 0
		}
		if c.K < hi {
			hi = c.K
		}
		mean := float64(c.Draws) * float64(c.K) / float64(c.N)
		if bigBalanced { // both ends of the support, point by point
			for j := 0; j <= 25 && lo+j <= hi; j++ {
				c.Ks = append(c.Ks, float64(lo+j), float64(hi-j))
			}
		}
		for i := 0; i < 12; i++ {
			switch rapid.IntRange(0, 2).Draw(rt, "kkind") {
			case 0:
				c.Ks = append(c.Ks, float64(rapid.IntRange(lo-2, hi+2).Draw(rt, "k")))
			case 1:
				c.Ks = append(c.Ks, math.Round(mean+rapid.Float64Range(-20, 20).Draw(rt, "koff")))
			default:
				c.Ks = append(c.Ks, float64(rapid.IntRange(lo-2, hi+2).Draw(rt, "k"))+rapid.Float64Range(0, 0.99).Draw(rt, "frac"))
			}
		}
		checkHyper.Run(rt, c)
	})
}
