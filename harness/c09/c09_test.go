// Package c09 decides property C09: descriptive statistics equal their
// definitions, weighted or not, in any order; Sort/Copy; the vec helpers.
package c09

import (
	"fmt"
	"math"
	"math/big"
	"sort"
	"testing"

	"github.com/aclements/go-moremath/stats"
	"github.com/aclements/go-moremath/vec"
	"pgregory.net/rapid"

	"verifharness/internal/ev"
	"verifharness/internal/gen"
	"verifharness/internal/ref"
)

func TestMain(m *testing.M) { ev.Main(m, "C09") }

func TestReplay(t *testing.T) { ev.Replay(t) }

const cF = 8.0 // safety factor on the forward error bounds

func isNaN(x float64) bool { return math.IsNaN(x) }

func sameF(a, b float64) bool {
	// numerically identical (0 and -0 are the same number; NaN equals NaN)
	return a == b || (math.IsNaN(a) && math.IsNaN(b))
}

func absMax(xs []float64) float64 {
	m := 0.0
	for _, x := range xs {
		if a := math.Abs(x); a > m {
			m = a
		}
	}
	return m
}

// exactStats holds the 400-bit values for a multiset of values.
type exactStats struct {
	n              int
	mean, variance float64
	sd, sum        float64
	geo            float64 // NaN if any value <= 0
	min, max       float64
	sumAbs         float64
	maxLn          float64
}

func exact(xs []float64) exactStats {
	e := exactStats{n: len(xs), mean: math.NaN(), variance: math.NaN(), sd: math.NaN(), geo: math.NaN(), min: math.NaN(), max: math.NaN()}
	if len(xs) == 0 {
		return e
	}
	e.sum = ref.F64(ref.Sum(xs))
	e.mean = ref.F64(ref.Mean(xs))
	if len(xs) >= 2 {
		v := ref.Variance(xs)
		e.variance = ref.F64(v)
		e.sd = ref.F64(ref.Sqrt(v))
	} else {
		e.variance, e.sd = 0, 0
	}
	e.min, e.max = xs[0], xs[0]
	pos := true
	lnsum := ref.BI(0)
	for _, x := range xs {
		if x < e.min {
			e.min = x
		}
		if x > e.max {
			e.max = x
		}
		e.sumAbs += math.Abs(x)
		if x <= 0 {
			pos = false
		} else if pos {
			l := ref.Ln(ref.B(x))
			lnsum = ref.Add(lnsum, l)
			if a := math.Abs(ref.F64(l)); a > e.maxLn {
				e.maxLn = a
			}
		}
	}
	if pos {
		e.geo = ref.F64(ref.Exp(ref.Quo(lnsum, ref.BI(len(xs)))))
	}
	return e
}

func near(got, want, tol float64) bool {
	if isNaN(want) {
		return isNaN(got)
	}
	return math.Abs(got-want) <= tol
}

// checkAgainst compares the library's results for (xs, weights) with the exact
// statistics e of the equivalent unweighted multiset. n is the count used in
// the error bounds.
// view is one way of asking for the statistics of the same unweighted data: the slice
// functions, the methods of Sample{Xs}, or those of a Sample marked Sorted.
type view struct {
	name                            string
	mean, variance, sd, geo, sum, w func() float64
	bounds                          func() (float64, float64)
}

func sliceView(xs []float64) view {
	return view{"slice functions", func() float64 { return stats.Mean(xs) }, func() float64 { return stats.Variance(xs) },
		func() float64 { return stats.StdDev(xs) }, func() float64 { return stats.GeoMean(xs) }, func() float64 { return vec.Sum(xs) },
		func() float64 { return float64(len(xs)) }, func() (float64, float64) { return stats.Bounds(xs) }}
}

func sampleView(s stats.Sample, name string) view {
	return view{name, s.Mean, s.Variance, s.StdDev, s.GeoMean, s.Sum, s.Weight, s.Bounds}
}

// checkUnweighted compares every view of the data with the exact statistics e. Each view
// is judged against the exact value with the same tolerance: the property promises the
// mathematical value up to rounding, not bit-identity between the different entry points.
func checkUnweighted(xs []float64, e exactStats, label string) error {
	views := []view{sliceView(xs), sampleView(stats.Sample{Xs: xs}, "Sample methods")}
	if sort.Float64sAreSorted(xs) {
		views = append(views, sampleView(stats.Sample{Xs: xs, Sorted: true}, "Sample marked Sorted"))
	}
	for _, v := range views {
		if err := checkView(v, xs, e, label+", "+v.name); err != nil {
			return err
		}
	}
	return nil
}

func checkView(v view, xs []float64, e exactStats, label string) error {
	n := float64(len(xs))
	eps := ref.Eps
	tolMean := cF*n*eps*absMax(xs) + 1e-300
	if got := v.mean(); !near(got, e.mean, tolMean) {
		return fmt.Errorf("%s: Mean = %.17g, exact %.17g (tol %.3g)", label, got, e.mean, tolMean)
	} else if !isNaN(e.mean) {
		ev.MaxErr("mean", math.Abs(got-e.mean)/tolMean)
	}
	kappa := 1.0
	if e.n >= 2 && e.sd > 0 {
		kappa = 1 + math.Abs(e.mean)/e.sd
	}
	tolVar := cF * n * eps * kappa * e.variance
	if e.n < 2 {
		tolVar = 0
	}
	if got := v.variance(); !near(got, e.variance, tolVar) {
		return fmt.Errorf("%s: Variance = %.17g, exact %.17g (tol %.3g, kappa %.3g)", label, got, e.variance, tolVar, kappa)
	} else if tolVar > 0 {
		ev.MaxErr("variance", math.Abs(got-e.variance)/tolVar)
	}
	tolSD := cF * n * eps * kappa * e.sd
	if e.n < 2 {
		tolSD = 0
	}
	if got := v.sd(); !near(got, e.sd, tolSD) {
		return fmt.Errorf("%s: StdDev = %.17g, exact %.17g", label, got, e.sd)
	}
	tolGeo := cF * n * eps * (1 + e.maxLn) * e.geo
	if got := v.geo(); !near(got, e.geo, tolGeo) {
		return fmt.Errorf("%s: GeoMean = %.17g, exact %.17g (tol %.3g)", label, got, e.geo, tolGeo)
	} else if !isNaN(e.geo) {
		ev.MaxErr("geomean", math.Abs(got-e.geo)/tolGeo)
	}
	if lo, hi := v.bounds(); !sameF(lo, e.min) || !sameF(hi, e.max) {
		return fmt.Errorf("%s: Bounds = %v,%v, want %v,%v", label, lo, hi, e.min, e.max)
	}
	wantSum := e.sum
	if e.n == 0 {
		wantSum = 0
	}
	if got := v.sum(); !near(got, wantSum, n*eps*e.sumAbs) {
		return fmt.Errorf("%s: Sum = %.17g, exact %.17g", label, got, wantSum)
	}
	if got := v.w(); got != n {
		return fmt.Errorf("%s: Weight = %v, want %v", label, got, n)
	}
	return nil
}

// DescCase: data, optional integer weights, a permutation.
type DescCase struct {
	Xs   []float64 `json:"xs"`
	W    []float64 `json:"w,omitempty"` // non-negative integers
	Perm []int     `json:"perm"`
}

func permuteF(xs []float64, p []int) []float64 {
	if xs == nil {
		return nil
	}
	out := make([]float64, len(xs))
	for i, j := range p {
		out[i] = xs[j]
	}
	return out
}

func expand(xs, w []float64) []float64 {
	if w == nil {
		return append([]float64(nil), xs...)
	}
	var out []float64
	for i, x := range xs {
		for k := 0; k < int(w[i]); k++ {
			out = append(out, x)
		}
	}
	return out
}

var checkDesc = ev.Register("descriptive", func(c *DescCase) ev.Outcome {
	if len(c.Perm) != len(c.Xs) || (c.W != nil && len(c.W) != len(c.Xs)) {
		return ev.Fail("harness error: inconsistent case")
	}
	classes := []string{}
	e := exact(c.Xs)
	orig := append([]float64(nil), c.Xs...)
	if err := checkUnweighted(orig, e, "as given"); err != nil {
		return ev.Outcome{Err: err}
	}
	px := permuteF(c.Xs, c.Perm)
	if err := checkUnweighted(px, e, "permuted"); err != nil {
		return ev.Outcome{Err: err}
	}
	// ascending data marked Sorted: nothing may change
	asc := append([]float64(nil), c.Xs...)
	sort.Float64s(asc)
	if err := checkUnweighted(asc, e, "ascending"); err != nil {
		return ev.Outcome{Err: err}
	}
	kappa := 1.0
	if e.n >= 2 && e.sd > 0 {
		kappa = 1 + math.Abs(e.mean)/e.sd
	}
	if kappa >= 1e3 {
		classes = append(classes, "large-offset")
	}
	if c.W != nil {
		classes = append(classes, "weighted")
		ex := expand(c.Xs, c.W)
		ee := exact(ex)
		for _, variant := range []struct {
			name   string
			xs, ws []float64
			sorted bool
		}{
			{"weighted", append([]float64(nil), c.Xs...), append([]float64(nil), c.W...), false},
			{"weighted permuted", permuteF(c.Xs, c.Perm), permuteF(c.W, c.Perm), false},
		} {
			s := stats.Sample{Xs: variant.xs, Weights: variant.ws}
			if err := checkWeighted(s, ee, variant.name); err != nil {
				return ev.Outcome{Err: err}
			}
		}
		// ascending + Sorted, weights attached
		idx := make([]int, len(c.Xs))
		for i := range idx {
			idx[i] = i
		}
		sort.SliceStable(idx, func(a, b int) bool { return c.Xs[idx[a]] < c.Xs[idx[b]] })
		s := stats.Sample{Xs: permuteF(c.Xs, idx), Weights: permuteF(c.W, idx), Sorted: true}
		if err := checkWeighted(s, ee, "weighted ascending Sorted"); err != nil {
			return ev.Outcome{Err: err}
		}
		zero := false
		for _, w := range c.W {
			if w == 0 {
				zero = true
			}
		}
		if zero {
			classes = append(classes, "zero-weight")
		}
		if len(c.W) > 0 && c.W[0] == 0 {
			classes = append(classes, "leading-zero-weight")
		}
	}
	nt := len(c.Xs) >= 3 && (kappa >= 1e3 || c.W != nil)
	return ev.OK(nt, classes...)
})

func checkWeighted(s stats.Sample, ee exactStats, label string) error {
	n := float64(ee.n) + float64(len(s.Xs))
	eps := ref.Eps
	wsum := 0.0
	for _, w := range s.Weights {
		wsum += w
	}
	if got := s.Weight(); got != wsum {
		return fmt.Errorf("%s: Weight = %v, want %v", label, got, wsum)
	}
	tolMean := cF*n*eps*absMax(s.Xs) + 1e-300
	if got := s.Mean(); !near(got, ee.mean, tolMean) {
		return fmt.Errorf("%s: Mean = %.17g, mean of the expanded sample %.17g", label, got, ee.mean)
	}
	sumAbs := 0.0
	for i, x := range s.Xs {
		sumAbs += math.Abs(x) * s.Weights[i]
	}
	wantSum := ee.sum
	if ee.n == 0 {
		wantSum = 0
	}
	if got := s.Sum(); !near(got, wantSum, 2*n*eps*sumAbs) {
		return fmt.Errorf("%s: Sum = %.17g, sum of the expanded sample %.17g", label, got, wantSum)
	}
	lo, hi := s.Bounds()
	if !sameF(lo, ee.min) || !sameF(hi, ee.max) {
		return fmt.Errorf("%s: Bounds = %v,%v, bounds of the expanded sample %v,%v", label, lo, hi, ee.min, ee.max)
	}
	// the weighted geometric mean is claimed when the expanded sample is positive: values of
	// weight zero are not part of it, whatever their sign
	allPos := true
	for i, x := range s.Xs {
		if x <= 0 && s.Weights[i] != 0 {
			allPos = false
		}
	}
	if allPos {
		tolGeo := cF * n * eps * (1 + ee.maxLn) * ee.geo
		maxLn := 0.0
		for i, x := range s.Xs {
			if s.Weights[i] != 0 {
				maxLn = math.Max(maxLn, math.Abs(math.Log(x)))
			}
		}
		if !isNaN(ee.geo) {
			tolGeo = cF * n * eps * (1 + maxLn) * ee.geo
		}
		if got := s.GeoMean(); !near(got, ee.geo, tolGeo) {
			return fmt.Errorf("%s: GeoMean = %.17g, geometric mean of the expanded sample %.17g", label, got, ee.geo)
		}
	}
	return nil
}

// ---------------------------------------------------------------- histories on a Sample

type Op struct {
	Kind string `json:"kind"` // sort, copy-keep-copy, copy-keep-orig, permute, query
	Perm []int  `json:"perm,omitempty"`
}

type HistCase struct {
	Xs  []float64 `json:"xs"`
	W   []float64 `json:"w,omitempty"`
	Ops []Op      `json:"ops"`
}

type pair struct{ x, w float64 }

func pairsOf(s *stats.Sample) []pair {
	out := make([]pair, len(s.Xs))
	for i, x := range s.Xs {
		w := 1.0
		if s.Weights != nil {
			w = s.Weights[i]
		}
		out[i] = pair{x, w}
	}
	sort.Slice(out, func(i, j int) bool {
		if out[i].x != out[j].x {
			return out[i].x < out[j].x
		}
		return out[i].w < out[j].w
	})
	return out
}

var checkHist = ev.Register("sample-history", func(c *HistCase) ev.Outcome {
	s := &stats.Sample{Xs: append([]float64(nil), c.Xs...)}
	if c.W != nil {
		if len(c.W) != len(c.Xs) {
			return ev.Fail("harness error: weights")
		}
		s.Weights = append([]float64(nil), c.W...)
	}
	model := pairsOf(s) // the multiset never changes
	ee := exact(expand(c.Xs, c.W))
	sortAfterPermute, permuted := false, false
	for step, op := range c.Ops {
		switch op.Kind {
		case "sort":
			r := s.Sort()
			if r != s {
				return ev.Fail("step %d: Sort did not return its receiver", step)
			}
			if !s.Sorted || !sort.Float64sAreSorted(s.Xs) {
				return ev.Fail("step %d: after Sort the values are not ascending / Sorted not set: %v", step, s.Xs)
			}
			if permuted {
				sortAfterPermute = true
			}
		case "copy-keep-copy", "copy-keep-orig":
			cp := s.Copy()
			if cp == s {
				return ev.Fail("step %d: Copy returned the receiver", step)
			}
			if cp.Sorted != s.Sorted || (cp.Weights == nil) != (s.Weights == nil) {
				return ev.Fail("step %d: Copy changed Sorted / weightedness", step)
			}
			keep, scribble := cp, s
			if op.Kind == "copy-keep-orig" {
				keep, scribble = s, cp
			}
			before := pairsOf(keep)
			for i := range scribble.Xs {
				scribble.Xs[i] = -12345.678
				if scribble.Weights != nil {
					scribble.Weights[i] = 99
				}
			}
			// writing beyond len through append must not reach the other either
			scribble.Xs = append(scribble.Xs[:0], make([]float64, len(scribble.Xs))...)
			after := pairsOf(keep)
			for i := range before {
				if before[i] != after[i] {
					return ev.Fail("step %d: Copy shares storage with the original: %v became %v", step, before[i], after[i])
				}
			}
			s = keep
		case "permute":
			if len(op.Perm) != len(s.Xs) {
				return ev.Fail("harness error: permutation length")
			}
			s.Xs = permuteF(s.Xs, op.Perm)
			s.Weights = permuteF(s.Weights, op.Perm)
			s.Sorted = sort.Float64sAreSorted(s.Xs) && false // a permuted sample is presented as unsorted
			permuted = true
		case "query":
			if s.Weights == nil {
				if err := checkUnweighted(s.Xs, ee, fmt.Sprintf("step %d query", step)); err != nil {
					return ev.Outcome{Err: err}
				}
			} else if err := checkWeighted(*s, ee, fmt.Sprintf("step %d query", step)); err != nil {
				return ev.Outcome{Err: err}
			}
		default:
			return ev.Fail("harness error: op %q", op.Kind)
		}
		got := pairsOf(s)
		if len(got) != len(model) {
			return ev.Fail("step %d (%s): sample has %d values, want %d", step, op.Kind, len(got), len(model))
		}
		for i := range got {
			if got[i] != model[i] {
				return ev.Fail("step %d (%s): the (value,weight) multiset changed: %v vs %v", step, op.Kind, got[i], model[i])
			}
		}
	}
	classes := []string{"history"}
	if sortAfterPermute {
		classes = append(classes, "sort-after-permute")
	}
	if c.W != nil {
		classes = append(classes, "history-weighted")
	}
	return ev.OK(len(c.Xs) >= 3 && sortAfterPermute, classes...)
})

// ---------------------------------------------------------------- vec

type VecCase struct {
	Lo    float64     `json:"lo"`
	Hi    float64     `json:"hi"`
	Num   int         `json:"num"`
	Base  float64     `json:"base"`
	Parts [][]float64 `json:"parts"`
}

var checkVec = ev.Register("vec", func(c *VecCase) ev.Outcome {
	ls := vec.Linspace(c.Lo, c.Hi, c.Num)
	if len(ls) != c.Num {
		return ev.Fail("Linspace length %d, want %d", len(ls), c.Num)
	}
	scale := math.Abs(c.Lo) + math.Abs(c.Hi)
	for i, v := range ls {
		var want float64
		if c.Num == 1 {
			want = c.Lo
		} else {
			step := ref.Quo(ref.Sub(ref.B(c.Hi), ref.B(c.Lo)), ref.BI(c.Num-1))
			want = ref.F64(ref.Add(ref.B(c.Lo), ref.Mul(ref.BI(i), step)))
		}
		if !(math.Abs(v-want) <= 4*ref.Eps*scale) {
			return ev.Fail("Linspace(%v,%v,%d)[%d] = %.17g, want %.17g", c.Lo, c.Hi, c.Num, i, v, want)
		}
	}
	if c.Num >= 1 && ls[0] != c.Lo {
		return ev.Fail("Linspace first element %v, want lo=%v", ls[0], c.Lo)
	}
	lg := vec.Logspace(c.Lo, c.Hi, c.Num, c.Base)
	if len(lg) != c.Num {
		return ev.Fail("Logspace length %d", len(lg))
	}
	for i := range lg {
		if want := math.Pow(c.Base, ls[i]); !sameF(lg[i], want) {
			return ev.Fail("Logspace[%d] = %v, want base^Linspace[%d] = %v", i, lg[i], i, want)
		}
	}
	// Map / Vectorize with a recording function
	var seen []float64
	f := func(x float64) float64 { seen = append(seen, x); return 2*x + 1 }
	in := vec.Concat(c.Parts...)
	total := 0
	pos := 0
	for _, p := range c.Parts {
		total += len(p)
		for _, x := range p {
			if !sameF(in[pos], x) {
				return ev.Fail("Concat element %d = %v, want %v", pos, in[pos], x)
			}
			pos++
		}
	}
	if len(in) != total {
		return ev.Fail("Concat length %d, want %d", len(in), total)
	}
	// Concat returns fresh storage
	for _, p := range c.Parts {
		if len(p) > 0 && len(in) > 0 {
			old := p[0]
			in[0]++
			if p[0] != old {
				return ev.Fail("Concat result aliases an argument")
			}
			in[0]--
		}
	}
	snapshot := append([]float64(nil), in...)
	out := vec.Map(f, in)
	if len(out) != len(in) || len(seen) != len(in) {
		return ev.Fail("Map: %d results, %d calls for %d inputs", len(out), len(seen), len(in))
	}
	for i := range in {
		if !sameF(seen[i], in[i]) || !sameF(out[i], 2*in[i]+1) {
			return ev.Fail("Map: call %d saw %v (input %v), result %v", i, seen[i], in[i], out[i])
		}
	}
	for i := range out {
		out[i] = -1
	}
	for i := range in {
		if !sameF(in[i], snapshot[i]) {
			return ev.Fail("Map result aliases its input")
		}
	}
	seen = nil
	out2 := vec.Vectorize(f)(in)
	if len(out2) != len(in) {
		return ev.Fail("Vectorize length")
	}
	for i := range in {
		if !sameF(out2[i], 2*in[i]+1) {
			return ev.Fail("Vectorize(f)(xs)[%d] = %v", i, out2[i])
		}
	}
	sumAbs := 0.0
	for _, x := range in {
		sumAbs += math.Abs(x)
	}
	if got, want := vec.Sum(in), ref.F64(ref.Sum(in)); !(math.Abs(got-want) <= float64(len(in))*ref.Eps*sumAbs) {
		return ev.Fail("Sum = %.17g, exact %.17g", got, want)
	}
	return ev.OK(c.Num >= 2 || total >= 2, "vec")
})

// ---------------------------------------------------------------- generators

const rule = "Descriptive statistics of rapid-generated data (n 0..200, data = offset + spread*z with |offset|/spread up to 1e9, " +
	"positive data for GeoMean, non-positive members, integer weights 0..5 incl. leading/trailing/all zeros, a permutation) vs " +
	"400-bit values: Mean, Variance, StdDev, GeoMean, Sum, Weight, Bounds, slice functions and Sample methods, as given / " +
	"permuted / ascending+Sorted; weighted = expanded unweighted. Histories: generated op lists (sort, copy then scribble on " +
	"the other, permute, query) on a Sample against the invariant (value,weight) multiset and fresh exact statistics. vec: " +
	"Linspace/Logspace/Map/Vectorize/Concat/Sum identities. Tolerances 8*n*eps*condition. Non-trivial: n>=3 and (offset/spread " +
	">= 1e3 or weights present or a Sort after a permute); distinct = different canonical JSON. Later additions: nearly sorted orders (late values appended behind a sorted bulk, two runs, rotations, ...) in the permute steps, a sort/append/sort/query scenario, samples up to 100 values."

func drawData(t *rapid.T, n int, positive bool) []float64 {
	spread := gen.LogUniform(t, 1e-3, 1e3, "spread")
	ratio := 0.0
	switch rapid.IntRange(0, 3).Draw(t, "offsetKind") {
	case 1:
		ratio = gen.LogUniform(t, 1, 1e3, "ratioSmall")
	case 2, 3:
		ratio = gen.LogUniform(t, 1e3, 1e9, "ratioBig")
	}
	offset := ratio * spread * gen.Sign(t, "offsetSign")
	if positive {
		offset = math.Abs(offset) + 2*spread
	}
	xs := make([]float64, n)
	for i := range xs {
		z := gen.Unit(t, "z")
		if rapid.IntRange(0, 9).Draw(t, "repeat") == 0 && i > 0 {
			xs[i] = xs[i-1]
			continue
		}
		xs[i] = offset + spread*z
		if positive && !(xs[i] > 0) {
			xs[i] = spread
		}
	}
	return xs
}

func drawWeights(t *rapid.T, n int) []float64 {
	w := make([]float64, n)
	kind := rapid.IntRange(0, 4).Draw(t, "wKind")
	for i := range w {
		w[i] = float64(rapid.IntRange(0, 5).Draw(t, "w"))
		if kind == 1 && i == 0 {
			w[i] = 0
		}
		if kind == 2 && i == n-1 {
			w[i] = 0
		}
		if kind == 3 {
			w[i] = 0
		}
	}
	return w
}

func TestDescriptive(t *testing.T) {
	ev.Rule(rule)
	ev.Rapid(t, "c09-desc", 1500, 120000, func(rt *rapid.T) {
		n := rapid.IntRange(0, 200).Draw(rt, "n")
		if rapid.IntRange(0, 3).Draw(rt, "small") == 0 {
			n = rapid.IntRange(0, 6).Draw(rt, "nsmall")
		}
		c := &DescCase{Xs: drawData(rt, n, rapid.Bool().Draw(rt, "positive"))}
		if rapid.Bool().Draw(rt, "weighted") {
			c.W = drawWeights(rt, n)
			if rapid.IntRange(0, 2).Draw(rt, "signOfIgnored") == 0 {
				// the values of weight zero are not part of the sample: make them zero or
				// negative (also in otherwise positive data)
				for i := range c.Xs {
					if c.W[i] == 0 {
						if rapid.Bool().Draw(rt, "ignoredZero") {
							c.Xs[i] = 0
						} else {
							c.Xs[i] = -math.Abs(c.Xs[i])
						}
					}
				}
			}
		}
		c.Perm = gen.Perm(rt, n, "perm")
		checkDesc.Run(rt, c)
	})
}

func TestHistories(t *testing.T) {
	ev.Rule(rule)
	ev.Rapid(t, "c09-hist", 1000, 80000, func(rt *rapid.T) {
		n := rapid.IntRange(0, 40).Draw(rt, "n")
		if rapid.IntRange(0, 3).Draw(rt, "longer") == 0 {
			n = rapid.IntRange(30, 100).Draw(rt, "nlong")
		}
		c := &HistCase{Xs: drawData(rt, n, true)}
		if rapid.Bool().Draw(rt, "weighted") {
			c.W = drawWeights(rt, n)
		}
		if rapid.IntRange(0, 2).Draw(rt, "appendScenario") == 0 {
			// the life of a sample that is kept sorted while observations arrive: sort, a few late
			// values behind the sorted bulk, sort again, query
			c.Ops = append(c.Ops, Op{Kind: "sort"}, Op{Kind: "permute", Perm: gen.NearlySortedPerm(rt, n, "late")}, Op{Kind: "sort"}, Op{Kind: "query"})
		}
		k := rapid.IntRange(1, 10).Draw(rt, "nops")
		for i := 0; i < k; i++ {
			op := Op{Kind: rapid.SampledFrom([]string{"permute", "sort", "query", "copy-keep-copy", "copy-keep-orig"}).Draw(rt, "op")}
			if op.Kind == "permute" {
				op.Perm = gen.Perm(rt, n, "perm")
				if rapid.Bool().Draw(rt, "nearlySorted") {
					// relative to the current order - after a sort: a sorted bulk with a few late
					// values appended, two sorted runs, a rotation, ...
					op.Perm = gen.NearlySortedPerm(rt, n, "nearly")
				}
			}
			c.Ops = append(c.Ops, op)
		}
		checkHist.Run(rt, c)
	})
}

func TestVec(t *testing.T) {
	ev.Rule(rule)
	ev.Rapid(t, "c09-vec", 1000, 80000, func(rt *rapid.T) {
		c := &VecCase{Lo: rapid.Float64Range(-1e6, 1e6).Draw(rt, "lo"), Hi: rapid.Float64Range(-1e6, 1e6).Draw(rt, "hi"),
			Num: rapid.IntRange(0, 50).Draw(rt, "num"), Base: rapid.SampledFrom([]float64{10, 2, math.E, 0.5, 3}).Draw(rt, "base")}
		if rapid.Bool().Draw(rt, "smallRange") {
			c.Lo, c.Hi = rapid.Float64Range(-5, 5).Draw(rt, "lo2"), rapid.Float64Range(-5, 5).Draw(rt, "hi2")
		}
		np := rapid.IntRange(0, 5).Draw(rt, "nparts")
		c.Parts = [][]float64{}
		for i := 0; i < np; i++ {
			c.Parts = append(c.Parts, rapid.SliceOfN(rapid.Float64Range(-1e3, 1e3), 0, 6).Draw(rt, "part"))
		}
		checkVec.Run(rt, c)
	})
}

var _ = big.NewInt
