module verifharness

go 1.23

toolchain go1.23.5

require (
	github.com/aclements/go-moremath v0.0.0
	gonum.org/v1/gonum v0.15.1
	pgregory.net/rapid v1.3.0
)

replace github.com/aclements/go-moremath => /repo
