// Package c17 decides property C17: ticks are few enough, nice, ascending,
// inside the domain; FindLevel; Nice only expands.
package c17

import (
	"fmt"
	"math"
	"math/big"
	"testing"

	"github.com/aclements/go-moremath/scale"
	"pgregory.net/rapid"

	"verifharness/internal/ev"
	"verifharness/internal/gen"
	"verifharness/internal/ref"
)

func TestMain(m *testing.M) { ev.Main(m, "C17") }

func TestReplay(t *testing.T) { ev.Replay(t) }

// ---------------------------------------------------------------- Linear

type LinCase struct {
	Min      float64 `json:"min"`
	Max      float64 `json:"max"`
	Base     int     `json:"base"`
	OMax     int     `json:"omax"`
	MinLevel int     `json:"minlevel"`
	MaxLevel int     `json:"maxlevel"`
	// Earlier, if set, is a previous life of the same scale value: it is first given this
	// domain and base and used (Nice, Ticks, CountTicks), then its exported fields are
	// re-assigned to those of the case.
	Earlier *EarlierScale `json:"earlier,omitempty"`
}

// EarlierScale: see LinCase.Earlier / LogCase.Earlier.
type EarlierScale struct {
	Min  float64 `json:"min"`
	Max  float64 `json:"max"`
	Base int     `json:"base"`
	OMax int     `json:"omax"`
}

func ebaseOf(b int) float64 {
	if b == 0 {
		return 10
	}
	return float64(b)
}

// linSpacing is the documented spacing of a level.
func linSpacing(base, level int) float64 {
	exp := math.Floor(float64(level) / 2)
	sp := math.Pow(ebaseOf(base), exp)
	if base == 0 && (level%2 == 1 || level%2 == -1) {
		sp *= 5
	}
	return sp
}

// kRange returns ceil(lo/sp) and floor(hi/sp) in exact arithmetic.
func kRange(lo, hi, sp *big.Float) (int64, int64, bool) {
	a, b := ref.Quo(lo, sp), ref.Quo(hi, sp)
	if a.MantExp(nil) > 60 || b.MantExp(nil) > 60 {
		return 0, 0, false
	}
	ai, _ := a.Int(nil) // truncation toward zero
	bi, _ := b.Int(nil)
	k0, k1 := ai.Int64(), bi.Int64()
	if ref.BI(int(k0)).Cmp(a) < 0 {
		k0++ // ceil
	}
	if ref.BI(int(k1)).Cmp(b) > 0 {
		k1-- // floor
	}
	return k0, k1, true
}

// checkLinLevel compares CountTicks / TicksAtLevel at one level with the
// integer multiples of the spacing inside the domain.
func checkLinLevel(s scale.Linear, level int) (count int, err error) {
	sp := linSpacing(s.Base, level)
	if sp == 0 || math.IsInf(sp, 0) {
		return -1, nil
	}
	w := s.Max - s.Min
	slack := 1e-10 * w
	bsp := ref.B(sp)
	r0, r1, ok1 := kRange(ref.B(s.Min), ref.B(s.Max), bsp)                 // must be ticks
	a0, a1, ok2 := kRange(ref.B(s.Min-2*slack), ref.B(s.Max+2*slack), bsp) // may be ticks
	if !ok1 || !ok2 || a1-a0 > 100000 {
		return -1, nil
	}
	c := s.CountTicks(level)
	ticks, ok := s.TicksAtLevel(level).([]float64)
	if !ok {
		return 0, fmt.Errorf("TicksAtLevel(%d) is not a []float64", level)
	}
	if c != len(ticks) {
		return 0, fmt.Errorf("CountTicks(%d) = %d but TicksAtLevel(%d) has %d ticks", level, c, level, len(ticks))
	}
	must, may := int(r1-r0+1), int(a1-a0+1)
	if must < 0 {
		must = 0
	}
	if c < must || c > may {
		return 0, fmt.Errorf("level %d (spacing %g): %d ticks; the domain [%v,%v] holds %d multiples of the spacing (%d with the 1e-10 slack)", level, sp, c, s.Min, s.Max, must, may)
	}
	if c > 0 {
		// the ticks are consecutive multiples of the spacing starting at a0 or a0+1 ...
		k := math.Round(ticks[0] / sp)
		if int64(k) < a0 || int64(k) > r0 && must > 0 {
			return 0, fmt.Errorf("level %d: first tick %v is multiple %v of %g; expected between %d and %d", level, ticks[0], k, sp, a0, r0)
		}
		for i, x := range ticks {
			want := (k + float64(i)) * sp
			tol := 8*ref.Eps*(math.Abs(ticks[0])+math.Abs(ticks[len(ticks)-1])+math.Abs(want)) + 1e-300
			if !(math.Abs(x-want) <= tol) {
				return 0, fmt.Errorf("level %d: tick %d = %.17g, want multiple %v of spacing %g = %.17g", level, i, x, k+float64(i), sp, want)
			}
		}
	}
	return c, nil
}

func ascending(xs []float64) bool {
	for i := 1; i < len(xs); i++ {
		if !(xs[i] > xs[i-1]) {
			return false
		}
	}
	return true
}

var checkLinTicks = ev.Register("linear-ticks", func(c *LinCase) ev.Outcome {
	if c.OMax < 1 || c.Base < 0 || c.Base == 1 {
		return ev.Fail("harness error: options")
	}
	o := scale.TickOptions{Max: c.OMax, MinLevel: c.MinLevel, MaxLevel: c.MaxLevel}
	s := scale.Linear{Min: c.Min, Max: c.Max, Base: c.Base}
	if e := c.Earlier; e != nil && e.OMax >= 1 && e.Base >= 0 && e.Base != 1 {
		s = scale.Linear{Min: e.Min, Max: e.Max, Base: e.Base}
		eo := scale.TickOptions{Max: e.OMax}
		(&s).Nice(eo)
		s.Ticks(eo)
		s.CountTicks(0)
		s.Min, s.Max, s.Base = c.Min, c.Max, c.Base
	}
	lo, hi := math.Min(c.Min, c.Max), math.Max(c.Min, c.Max)
	w := hi - lo
	if w > 0 && (math.Abs(lo+hi)/2 > 1.001e3*w || w < 0.999e-9 || w > 1.001e9) {
		// beyond |centre|/width = 1e3 the library's 1e-10 slack is below rounding error: outside the property
		s.Ticks(o) // must still not panic
		return ev.OK(false, "outside-domain")
	}
	slack2 := 2e-10 * w
	major, minor := s.Ticks(o)
	classes := []string{"linear"}
	if c.Min > c.Max {
		classes = append(classes, "reversed")
	}
	if c.Min == c.Max {
		if len(major) != 1 || major[0] != c.Min || len(minor) != 1 || minor[0] != c.Min {
			return ev.Fail("degenerate domain: Ticks = %v, %v", major, minor)
		}
		return ev.OK(false, "linear-degenerate")
	}
	if len(major) > c.OMax {
		return ev.Fail("Ticks returned %d major ticks, Max is %d: %v", len(major), c.OMax, major)
	}
	if !ascending(major) || !ascending(minor) {
		return ev.Fail("ticks not ascending: major %v minor %v", major, minor)
	}
	for _, x := range append(append([]float64(nil), major...), minor...) {
		if x < lo-slack2 || x > hi+slack2 {
			return ev.Fail("tick %v outside the domain [%v,%v]", x, lo, hi)
		}
	}
	// the level by linear scan over a window around the natural level
	fwd := scale.Linear{Min: lo, Max: hi, Base: c.Base}
	eb := ebaseOf(c.Base)
	nat := 2 * int(math.Log(w)/math.Log(eb))
	wlo, whi := nat-14, nat+40
	llo, lhi := -1000, 1000
	if c.MinLevel != 0 || c.MaxLevel != 0 {
		llo, lhi = c.MinLevel, c.MaxLevel
	}
	if c.MinLevel != 0 || c.MaxLevel != 0 {
		wlo, whi = llo, lhi // explicit (small) windows are scanned completely
	}
	found, lvl := false, 0
	for l := wlo; l <= whi; l++ {
		sp := linSpacing(c.Base, l)
		if sp == 0 || math.IsInf(sp, 0) {
			continue
		}
		if fwd.CountTicks(l) <= c.OMax {
			found, lvl = true, l
			break
		}
	}
	if !found {
		// "nothing": no ticks - whether as nil or as empty slices is not part of the statement
		if len(major) != 0 && llo <= lhi {
			return ev.Fail("Ticks returned %v although no level in [%d,%d] fits Max=%d", major, llo, lhi, c.OMax)
		}
		return ev.OK(false, append(classes, "no-level-fits")...)
	}
	if len(major) == 0 && fwd.CountTicks(lvl) > 0 {
		// (a fitting level that holds no tick at all yields no ticks too: nil or empty, either is fine)
		return ev.Fail("Ticks returned nothing although level %d has %d <= %d ticks", lvl, fwd.CountTicks(lvl), c.OMax)
	}
	want := fwd.TicksAtLevel(lvl).([]float64)
	if len(want) != len(major) {
		return ev.Fail("major ticks %v are not those of the finest fitting level %d: %v", major, lvl, want)
	}
	for i := range want {
		if want[i] != major[i] {
			return ev.Fail("major ticks %v are not those of the finest fitting level %d: %v", major, lvl, want)
		}
	}
	sp := linSpacing(c.Base, lvl)
	for _, x := range major {
		if q := x / sp; math.Abs(q-math.Round(q)) > 1e-6 {
			return ev.Fail("major tick %v is not a multiple of the level-%d spacing %g", x, lvl, sp)
		}
		in := false
		for _, y := range minor {
			if math.Abs(x-y) <= 1e-9*sp {
				in = true
			}
		}
		if !in {
			return ev.Fail("major tick %v is not among the minor ticks %v", x, minor)
		}
	}
	// CountTicks is non-increasing (and never negative) over every level, however fine or
	// coarse - also where the count exceeds any int or the spacing under/overflows
	prevWide := math.MaxInt64
	for l := -700; l <= nat+80; l++ {
		// (up to spacings some 1e40 domain widths: beyond, bound/spacing itself underflows)
		if math.IsInf(linSpacing(c.Base, l), 0) {
			break // a spacing beyond float64 is not a level of this scale
		}
		cnt := fwd.CountTicks(l)
		if cnt < 0 || cnt > prevWide {
			return ev.Fail("CountTicks(%d) = %d after %d at the level below: not non-increasing / negative", l, cnt, prevWide)
		}
		prevWide = cnt
	}
	// CountTicks / TicksAtLevel against the definition around the chosen level, and monotone
	prev := math.MaxInt64
	for l := lvl - 4; l <= lvl+6; l++ {
		cnt, err := checkLinLevel(fwd, l)
		if err != nil {
			return ev.Outcome{Err: err}
		}
		if cnt < 0 {
			continue
		}
		if cnt > prev {
			return ev.Fail("CountTicks increases with the level: %d at level %d after %d", cnt, l, prev)
		}
		prev = cnt
	}
	// Nice
	n1 := s
	(&n1).Nice(o)
	if math.IsNaN(n1.Min) || math.IsNaN(n1.Max) || math.IsInf(n1.Min, 0) || math.IsInf(n1.Max, 0) {
		return ev.Fail("Nice made the domain non-finite: %+v", n1)
	}
	if n1.Min > lo+slack2 || n1.Max < hi-slack2 {
		return ev.Fail("Nice shrank the domain [%v,%v] to [%v,%v]", lo, hi, n1.Min, n1.Max)
	}
	if c.OMax >= 3 && c.MinLevel == 0 && c.MaxLevel == 0 {
		n2 := n1
		(&n2).Nice(o)
		if n2 != n1 {
			return ev.Fail("Nice is not idempotent: %+v then %+v", n1, n2)
		}
		mj, _ := n1.Ticks(o)
		if len(mj) < 2 {
			return ev.Fail("after Nice the scale %+v has major ticks %v", n1, mj)
		}
		sp2 := mj[1] - mj[0]
		if math.Abs(mj[0]-n1.Min) > 1e-9*sp2 || math.Abs(mj[len(mj)-1]-n1.Max) > 1e-9*sp2 {
			return ev.Fail("after Nice the first/last major ticks %v, %v are not the new ends [%v,%v]", mj[0], mj[len(mj)-1], n1.Min, n1.Max)
		}
		if lo-n1.Min > sp2*(1+1e-9) || n1.Max-hi > sp2*(1+1e-9) {
			return ev.Fail("Nice moved an end by more than one major spacing %g: [%v,%v] -> [%v,%v]", sp2, lo, hi, n1.Min, n1.Max)
		}
		classes = append(classes, "nice-laws")
	}
	if c.OMax <= 2 {
		classes = append(classes, "max<=2")
	}
	return ev.OK(len(major) >= 2 || c.OMax <= 2, classes...)
})

// ---------------------------------------------------------------- Log

type LogCase struct {
	Min      float64       `json:"min"`
	Max      float64       `json:"max"`
	Base     int           `json:"base"`
	OMax     int           `json:"omax"`
	MinLevel int           `json:"minlevel"`
	MaxLevel int           `json:"maxlevel"`
	Earlier  *EarlierScale `json:"earlier,omitempty"` // see LinCase.Earlier
}

var checkLogTicks = ev.Register("log-ticks", func(c *LogCase) ev.Outcome {
	s, err := scale.NewLog(c.Min, c.Max, c.Base)
	if err != nil || c.OMax < 1 {
		return ev.Fail("harness error: %v", err)
	}
	if e := c.Earlier; e != nil && e.OMax >= 1 {
		if s2, err2 := scale.NewLog(e.Min, e.Max, e.Base); err2 == nil {
			eo := scale.TickOptions{Max: e.OMax}
			(&s2).Nice(eo)
			s2.Ticks(eo)
			s2.CountTicks(0)
			s2.Min, s2.Max, s2.Base = s.Min, s.Max, s.Base
			s = s2
		}
	}
	o := scale.TickOptions{Max: c.OMax, MinLevel: c.MinLevel, MaxLevel: c.MaxLevel}
	neg := s.Min < 0
	a, b := math.Abs(s.Min), math.Abs(s.Max)
	if neg {
		a, b = b, a
	}
	if a == b {
		mj, mn := s.Ticks(o)
		if len(mj) != 1 || mj[0] != s.Min || len(mn) != 1 {
			return ev.Fail("degenerate domain: Ticks = %v, %v", mj, mn)
		}
		return ev.OK(false, "log-degenerate")
	}
	la, lb := math.Log(a), math.Log(b)
	lw := lb - la
	inside := func(x float64) bool {
		if neg {
			x = -x
		}
		if !(x > 0) {
			return false
		}
		return math.Log(x) >= la-2e-10*lw-1e-12 && math.Log(x) <= lb+2e-10*lw+1e-12
	}
	major, minor := s.Ticks(o)
	if len(major) > c.OMax {
		return ev.Fail("Ticks returned %d major ticks, Max is %d: %v", len(major), c.OMax, major)
	}
	if !ascending(major) || !ascending(minor) {
		return ev.Fail("ticks not ascending: major %v minor %v", major, minor)
	}
	lbase := math.Log(float64(c.Base))
	for _, x := range major {
		if !inside(x) {
			return ev.Fail("major tick %v outside the domain [%v,%v]", x, s.Min, s.Max)
		}
		if e := math.Log(math.Abs(x)) / lbase; math.Abs(e-math.Round(e)) > 1e-9*math.Max(1, math.Abs(e)) {
			return ev.Fail("major tick %v is not a power of the base %d", x, c.Base)
		}
	}
	for _, x := range minor {
		if !inside(x) {
			return ev.Fail("minor tick %v outside the domain [%v,%v]", x, s.Min, s.Max)
		}
	}
	for _, x := range major {
		in := false
		for _, y := range minor {
			if math.Abs(x-y) <= 1e-9*math.Abs(x) {
				in = true
			}
		}
		// the minor ticks of level -1 are filtered with exact comparisons while the majors use the
		// 1e-10 slack: a major within the slack of a domain end may be missing from the minors
		lx := math.Log(math.Abs(x))
		nearEnd := math.Abs(lx-la) <= 4e-10*lw+1e-12 || math.Abs(lx-lb) <= 4e-10*lw+1e-12
		if !in && !nearEnd {
			return ev.Fail("major tick %v is not among the minor ticks %v", x, minor)
		}
	}
	// finest level that fits, by linear scan (levels whose effective base is finite)
	llo, lhi := 0, 12
	if c.MinLevel != 0 || c.MaxLevel != 0 {
		llo, lhi = c.MinLevel, c.MaxLevel
	} else {
		llo = -1000
	}
	sane := func(l int) bool {
		return l >= 0 && !math.IsInf(math.Pow(float64(c.Base), math.Pow(2, float64(l))), 0)
	}
	found, lvl := false, 0
	for l := llo; l <= lhi && l <= 12; l++ {
		if l < 0 {
			continue // CountTicks is "infinite" below level 0
		}
		if !sane(l) {
			break
		}
		if s.CountTicks(l) <= c.OMax {
			found, lvl = true, l
			break
		}
	}
	classes := []string{"log"}
	if neg {
		classes = append(classes, "log-negative")
	}
	if found {
		want := s.TicksAtLevel(lvl).([]float64)
		if fmt.Sprint(want) != fmt.Sprint(major) {
			return ev.Fail("major ticks %v are not those of the finest fitting level %d: %v", major, lvl, want)
		}
		// definitional ticks at this level: ebase^n for the integers n in the domain
		ebase := math.Pow(float64(c.Base), math.Pow(2, float64(lvl)))
		le := math.Log(ebase)
		n0, n1 := math.Ceil(la/le-3e-10*lw/le-1e-12), math.Floor(lb/le+3e-10*lw/le+1e-12)
		m0, m1 := math.Ceil(la/le+3e-10*lw/le+1e-12), math.Floor(lb/le-3e-10*lw/le-1e-12)
		if cnt := float64(len(want)); cnt > n1-n0+1 || cnt < m1-m0+1 {
			return ev.Fail("level %d has %d ticks; the domain holds between %v and %v powers of %g", lvl, len(want), m1-m0+1, n1-n0+1, ebase)
		}
		for i, x := range want {
			ax := math.Abs(x)
			e := math.Log(ax) / le
			if math.Abs(e-math.Round(e)) > 1e-9*math.Max(1, math.Abs(e)) {
				return ev.Fail("level %d tick %v is not a power of %g", lvl, x, ebase)
			}
			if i > 0 {
				step := math.Abs(math.Log(math.Abs(want[i]))-math.Log(math.Abs(want[i-1]))) / le
				if math.Abs(step-1) > 1e-9 {
					return ev.Fail("level %d ticks %v are not consecutive powers of %g", lvl, want, ebase)
				}
			}
		}
	} else if len(major) != 0 && !(c.MinLevel == 0 && c.MaxLevel == 0) {
		// with explicit limits entirely among sane levels, failure must be reported
		allSane := true
		for l := c.MinLevel; l <= c.MaxLevel; l++ {
			if l >= 0 && !sane(l) { // levels below 0 never fit (their count is "infinite")
				allSane = false
			}
		}
		if allSane && c.MinLevel <= c.MaxLevel {
			return ev.Fail("Ticks returned %v although no level in [%d,%d] fits Max=%d", major, c.MinLevel, c.MaxLevel, c.OMax)
		}
	}
	prev := math.MaxInt64
	for l := -1; l <= 10; l++ {
		if l >= 0 && !sane(l) {
			break
		}
		cnt := s.CountTicks(l)
		if cnt > prev {
			return ev.Fail("CountTicks increases with the level: %d at level %d after %d", cnt, l, prev)
		}
		prev = cnt
		if l >= 0 {
			if n := len(s.TicksAtLevel(l).([]float64)); n != cnt {
				return ev.Fail("CountTicks(%d) = %d but TicksAtLevel has %d ticks", l, cnt, n)
			}
		}
	}
	// Nice
	n1 := s
	(&n1).Nice(o)
	if math.IsNaN(n1.Min) || math.IsNaN(n1.Max) || math.IsInf(n1.Min, 0) || math.IsInf(n1.Max, 0) || n1.Min == 0 || n1.Max == 0 {
		return ev.Fail("Nice made the domain non-finite or zero: %+v", n1)
	}
	// "never shrinks" up to the library's slack of 1e-10 log-widths at each end
	logSlack := 2e-10*lw + 1e-12
	if n1.Min > s.Min+math.Abs(s.Min)*math.Expm1(logSlack) || n1.Max < s.Max-math.Abs(s.Max)*math.Expm1(logSlack) {
		return ev.Fail("Nice shrank the domain [%v,%v] to [%v,%v]", s.Min, s.Max, n1.Min, n1.Max)
	}
	if c.OMax >= 3 && c.MinLevel == 0 && c.MaxLevel == 0 {
		n2 := n1
		(&n2).Nice(o)
		if n2.Min != n1.Min || n2.Max != n1.Max {
			return ev.Fail("Nice is not idempotent: [%v,%v] then [%v,%v]", n1.Min, n1.Max, n2.Min, n2.Max)
		}
		mj, _ := n1.Ticks(o)
		if len(mj) < 2 {
			return ev.Fail("after Nice the scale [%v,%v] has major ticks %v", n1.Min, n1.Max, mj)
		}
		if math.Abs(mj[0]-n1.Min) > 1e-9*math.Abs(n1.Min) || math.Abs(mj[len(mj)-1]-n1.Max) > 1e-9*math.Abs(n1.Max) {
			return ev.Fail("after Nice the first/last major ticks %v, %v are not the new ends [%v,%v]", mj[0], mj[len(mj)-1], n1.Min, n1.Max)
		}
		// each end moves by at most one major spacing (a factor of the tick ratio)
		ratio := math.Abs(math.Log(math.Abs(mj[1])) - math.Log(math.Abs(mj[0])))
		if math.Abs(math.Log(math.Abs(n1.Min))-math.Log(math.Abs(s.Min))) > ratio*(1+1e-9) || math.Abs(math.Log(math.Abs(n1.Max))-math.Log(math.Abs(s.Max))) > ratio*(1+1e-9) {
			return ev.Fail("Nice moved an end by more than one major tick ratio: [%v,%v] -> [%v,%v] (ticks %v)", s.Min, s.Max, n1.Min, n1.Max, mj)
		}
		classes = append(classes, "nice-laws")
	}
	if c.OMax <= 2 {
		classes = append(classes, "max<=2")
	}
	return ev.OK(len(major) >= 2 || c.OMax <= 2, classes...)
})

// ---------------------------------------------------------------- FindLevel (exhaustive)

// FLCase: a non-increasing count function on levels -4..4 (constant beyond)
// and Max; every (MinLevel,MaxLevel) pair and guess is tried inside.
type FLCase struct {
	Counts [9]int `json:"counts"`
	Max    int    `json:"max"`
}

type tableTicker struct{ c *FLCase }

func (t tableTicker) CountTicks(level int) int {
	if level < -4 {
		level = -4
	}
	if level > 4 {
		level = 4
	}
	return t.c.Counts[level+4]
}
func (t tableTicker) TicksAtLevel(level int) interface{} { return nil }

var checkFindLevel = ev.Register("findlevel", func(c *FLCase) ev.Outcome {
	for i := 1; i < 9; i++ {
		if c.Counts[i] > c.Counts[i-1] {
			return ev.Fail("harness error: counts must be non-increasing")
		}
	}
	tk := tableTicker{c}
	calls := int64(0)
	for minL := -5; minL <= 5; minL++ {
		for maxL := -5; maxL <= 5; maxL++ {
			lo, hi := minL, maxL
			if minL == 0 && maxL == 0 {
				lo, hi = -1000, 1000
			}
			wantOK, want := false, 0
			if c.Max >= 1 {
				for l := lo; l <= hi; l++ {
					if tk.CountTicks(l) <= c.Max {
						wantOK, want = true, l
						break
					}
				}
			}
			for guess := -7; guess <= 7; guess++ {
				o := scale.TickOptions{Max: c.Max, MinLevel: minL, MaxLevel: maxL}
				got, ok := o.FindLevel(tk, guess)
				calls++
				if ok != wantOK || (ok && got != want) {
					return ev.Fail("FindLevel(Max=%d, levels [%d,%d], guess %d) on counts %v (levels -4..4) = %d,%v; want %d,%v", c.Max, minL, maxL, guess, c.Counts, got, ok, want, wantOK)
				}
			}
		}
	}
	ev.AddCount("findlevel_calls", calls)
	return ev.OK(c.Counts[0] != c.Counts[8], "findlevel")
})

// ---------------------------------------------------------------- generators

const rule = "Linear: width log-uniform 1e-9..1e9, |centre|/width<=1e3, ends optionally snapped to round values, reversed and degenerate " +
	"domains, Base in {0,2,3,5,10,16}, TickOptions.Max 1..20, optional level windows. Log (NewLog): |ends| in 1e-100..1e100 of " +
	"either sign, wide and narrow, optionally exact powers, Base in {2,3,5,10,16}. Oracle: ticks ascending, inside the domain " +
	"(+-2e-10 width), <= Max majors, majors among minors, multiples of the level's documented spacing / powers of the base, equal " +
	"to TicksAtLevel at the level found by a linear scan of CountTicks (independent of guessLevel and FindLevel's search); " +
	"CountTicks = len(TicksAtLevel), non-increasing, and within the number of integer multiples of the spacing that the domain " +
	"holds (computed exactly; a multiple within 2e-10 widths of an end may go either way); Nice finite, never shrinks, and for " +
	"Max>=3 without level limits idempotent, ends move <= one major spacing, first/last major tick = new Min/Max. FindLevel: " +
	"exhaustively every non-increasing count function on levels -4..4 with values 0..Max+2, Max 0..4, every (MinLevel,MaxLevel) " +
	"in -5..5 and every guess -7..7 vs brute force. Non-trivial: >=2 major ticks or Max<=2."

func drawOptions(t *rapid.T, log bool) (omax, minL, maxL int) {
	omax = rapid.SampledFrom([]int{5, 3, 1, 2, 4, 6, 8, 10, 15, 20}).Draw(t, "omax")
	if rapid.IntRange(0, 3).Draw(t, "limits") == 0 {
		if log {
			// negative levels are legal limits for a Log scale too (its counts below
			// level 0 are "infinite"); {-k,0} must not be mistaken for the unset {0,0}
			minL = rapid.IntRange(-3, 3).Draw(t, "minlevel")
			maxL = minL + rapid.IntRange(0, 5).Draw(t, "levelspan")
		} else {
			minL = rapid.IntRange(-10, 9).Draw(t, "minlevel")
			if rapid.IntRange(0, 3).Draw(t, "deepLevels") == 0 {
				// limits far finer than the domain: counts beyond any int, nothing fits
				minL = rapid.IntRange(-60, -10).Draw(t, "deepMin")
			}
			maxL = minL + rapid.IntRange(0, 9).Draw(t, "levelspan")
		}
	}
	return
}

func TestLinearTicks(t *testing.T) {
	ev.Rule(rule)
	ev.Rapid(t, "c17-linear", 40000, 640000, func(rt *rapid.T) {
		c := &LinCase{Base: rapid.SampledFrom([]int{0, 10, 2, 3, 5, 16}).Draw(rt, "base")}
		width := gen.LogUniform(rt, 1e-9, 1e9, "width")
		centre := 0.0
		if rapid.IntRange(0, 4).Draw(rt, "centred") != 0 {
			centre = gen.Sign(rt, "cs") * width * gen.LogUniform(rt, 1e-3, 1e3, "centreRatio")
		}
		c.Min, c.Max = centre-width/2, centre+width/2
		switch rapid.IntRange(0, 6).Draw(rt, "shape") {
		case 6: // an end just off a round value (by 1e-12..1e-6 widths), typically far from zero
			unit := math.Pow(10, math.Round(math.Log10(width)))
			k := math.Round(c.Min / unit)
			eps := gen.Sign(rt, "es") * gen.LogUniform(rt, 1e-12, 1e-6, "eps") * width
			c.Min = k*unit + eps
			c.Max = c.Min + width
			if rapid.Bool().Draw(rt, "maxToo") {
				c.Max = math.Round(c.Max/unit)*unit - eps
			}
			if !(c.Min < c.Max) {
				c.Max = c.Min + width
			}
		case 0: // snapped to round values
			c.Min = math.Round(c.Min/width*10) * width / 10
			c.Max = c.Min + width
		case 1: // integers
			c.Min = float64(rapid.IntRange(-20, 20).Draw(rt, "imin"))
			c.Max = c.Min + float64(rapid.IntRange(1, 100).Draw(rt, "iw"))
		case 2:
			c.Min, c.Max = c.Max, c.Min
		case 3:
			if rapid.IntRange(0, 3).Draw(rt, "degenerate") == 0 {
				c.Max = c.Min
			}
		}
		c.OMax, c.MinLevel, c.MaxLevel = drawOptions(rt, false)
		if rapid.IntRange(0, 3).Draw(rt, "reused") == 0 {
			// the scale value had another life: another base on the same or a related domain
			e := &EarlierScale{Min: c.Min, Max: c.Max, Base: rapid.SampledFrom([]int{16, 0, 2, 10, 3, 5}).Draw(rt, "ebase"), OMax: rapid.IntRange(1, 8).Draw(rt, "eomax")}
			switch rapid.IntRange(0, 2).Draw(rt, "edomain") {
			case 1:
				e.Min, e.Max = -c.Max, -c.Min
			case 2:
				e.Max = c.Min + (c.Max-c.Min)*rapid.SampledFrom([]float64{0.1, 3, 1.7, 100}).Draw(rt, "escale")
			}
			c.Earlier = e
		}
		checkLinTicks.Run(rt, c)
	})
}

func TestLogTicks(t *testing.T) {
	ev.Rule(rule)
	ev.Rapid(t, "c17-log", 40000, 640000, func(rt *rapid.T) {
		c := &LogCase{Base: rapid.SampledFrom([]int{10, 2, 3, 5, 16}).Draw(rt, "base")}
		a := gen.LogUniform(rt, 1e-100, 1e100, "a")
		var b float64
		switch rapid.IntRange(0, 2).Draw(rt, "span") {
		case 0:
			b = a * gen.LogUniform(rt, 1.001, 100, "narrow")
		case 1:
			b = a * gen.LogUniform(rt, 1.0000001, 1e50, "wide")
		default:
			b = a * gen.LogUniform(rt, 10, 1e6, "mid")
		}
		if b > 1e100 {
			b = 1e100
		}
		if rapid.IntRange(0, 3).Draw(rt, "powers") == 0 {
			fb := float64(c.Base)
			a = math.Pow(fb, math.Round(math.Log(a)/math.Log(fb)))
			b = math.Pow(fb, math.Round(math.Log(b)/math.Log(fb)))
		}
		if !(a < b) {
			b = a * 10
		}
		c.Min, c.Max = a, b
		if rapid.Bool().Draw(rt, "negative") {
			c.Min, c.Max = -b, -a
		}
		if rapid.IntRange(0, 30).Draw(rt, "degenerate") == 0 {
			c.Max = c.Min
		}
		c.OMax, c.MinLevel, c.MaxLevel = drawOptions(rt, true)
		if rapid.IntRange(0, 3).Draw(rt, "reused") == 0 && c.Min != c.Max {
			e := &EarlierScale{Min: c.Min, Max: c.Max, Base: rapid.SampledFrom([]int{10, 2, 3, 16}).Draw(rt, "ebase"), OMax: rapid.IntRange(1, 8).Draw(rt, "eomax")}
			switch rapid.IntRange(0, 2).Draw(rt, "edomain") {
			case 1: // the negated mirror image
				e.Min, e.Max = -c.Max, -c.Min
			case 2:
				e.Max = c.Max * rapid.SampledFrom([]float64{10, 1e3, 7}).Draw(rt, "escale")
			}
			c.Earlier = e
		}
		checkLogTicks.Run(rt, c)
	})
}

func TestFindLevelExhaustive(t *testing.T) {
	if ev.Replaying() {
		return
	}
	ev.Rule(rule)
	var cases []*FLCase
	for max := 0; max <= 4; max++ {
		top := max + 2
		var rec func(pos, cap int, cur [9]int)
		rec = func(pos, cap int, cur [9]int) {
			if pos == 9 {
				c := &FLCase{Counts: cur, Max: max}
				cases = append(cases, c)
				return
			}
			for v := cap; v >= 0; v-- {
				cur[pos] = v
				rec(pos+1, v, cur)
			}
		}
		rec(0, top, [9]int{})
	}
	ev.Parallel(t, len(cases), func(tb ev.TB, i int) {
		if ev.MyShare(i) {
			checkFindLevel.RunEnum(tb, cases[i])
		}
	})
	ev.Exhaustive("FindLevel: all non-increasing count functions on levels -4..4 with values 0..Max+2 for Max 0..4, x 121 level windows x 15 guesses")
}
