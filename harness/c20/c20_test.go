// Package c20 decides property C20: API calls are pure (inputs untouched),
// deterministic (bit-identical repeated results) and race-free. The test
// binary is built with -race by the driver.
package c20

import (
	"fmt"
	"hash/fnv"
	"math"
	"math/rand"
	"sort"
	"strings"
	"sync"
	"testing"

	"github.com/aclements/go-moremath/fit"
	"github.com/aclements/go-moremath/graph"
	"github.com/aclements/go-moremath/graph/graphalg"
	"github.com/aclements/go-moremath/graph/graphout"
	"github.com/aclements/go-moremath/mathx"
	"github.com/aclements/go-moremath/scale"
	"github.com/aclements/go-moremath/stats"
	"github.com/aclements/go-moremath/vec"
	"pgregory.net/rapid"

	"verifharness/internal/ev"
	"verifharness/internal/gen"
)

func TestMain(m *testing.M) { ev.Main(m, "C20") }

func TestReplay(t *testing.T) { ev.Replay(t) }

// Inputs is one generated set of shared arguments. The float slices are
// unsorted and contain ties, so that an internal sort or reordering shows.
type Inputs struct {
	X1  []float64 `json:"x1"`
	X2  []float64 `json:"x2"`  // same length as X1 (paired tests)
	Pos []float64 `json:"pos"` // positive, same length as X1
	W   []float64 `json:"w"`   // non-negative weights for X1, not all zero
	T   []int     `json:"t"`   // tie vector for UDist
	Adj [][]int   `json:"adj"` // multigraph with unsorted adjacency lists
	Q   float64   `json:"q"`
	Cnt int       `json:"cnt"`
	// ConcurrentFirst runs the 16-goroutine round before any sequential call, so that
	// lazily filled package-level state (a cache) is first touched concurrently.
	ConcurrentFirst bool `json:"concurrent_first"`
}

const sentinel = -7.25e77

// bigGraph is a fixed read-only graph with 2600 nodes, all reachable from 0:
// a path with forward jumps, parallel edges and a back edge every 37 nodes.
var bigGraph, bigBiGraph = func() (graph.IntGraph, graph.BiGraph) {
	const n = 2600
	adj := make([][]int, n)
	for i := 0; i < n; i++ {
		if i+1 < n {
			adj[i] = append(adj[i], i+1)
		}
		if i+9 < n {
			adj[i] = append(adj[i], i+9, i+9)
		}
		if i%37 == 36 {
			adj[i] = append(adj[i], i-30)
		}
	}
	g := graph.IntGraph(adj)
	return g, graph.MakeBiGraph(g)
}()

// shared is the live, shared form of Inputs: every slice has spare capacity
// filled with a sentinel so that append-aliasing writes are visible.
type shared struct {
	in                 *Inputs
	x1, x2, pos, w, xa []float64 // xa: ascending copy of x1
	t                  []int
	adj                [][]int
	g                  graph.IntGraph
	bg                 graph.BiGraph
	hist               *stats.LinearHist
	loghist            *stats.LogHist
	kdes               []*stats.KDE
	// results of earlier calls that are themselves shared and then used concurrently:
	// fitted functions, quantile functions, derived graphs
	loess, loess0 func(float64) float64
	poly          fit.PolynomialRegressionResult
	invT, invK    func(float64) float64
	vecF          func([]float64) []float64
	scc           *graphalg.SCCGraph
	dom           *graphalg.DomTree
	simp          graph.Weighted
	subK, subR    graph.Subgraph
	raw0          string // snapshot of the raw inputs before the derived objects were built
}

// padF and padI copy a slice into a buffer whose spare capacity is more than twice the
// length: code that "copies" with append(x, y...) or x[len(x):] lands inside it.
func padF(xs []float64) []float64 {
	out := make([]float64, len(xs), 3*len(xs)+4)
	copy(out, xs)
	full := out[:cap(out)]
	for i := len(xs); i < len(full); i++ {
		full[i] = sentinel
	}
	return out
}

func padI(xs []int) []int {
	out := make([]int, len(xs), 3*len(xs)+4)
	copy(out, xs)
	full := out[:cap(out)]
	for i := len(xs); i < len(full); i++ {
		full[i] = -424242
	}
	return out
}

func build(in *Inputs) *shared {
	s := &shared{in: in, pos: padF(in.Pos), w: padF(in.W), t: padI(in.T)}
	// x1 and x2 are two windows of ONE backing array with a small gap between them (as when two
	// stretches of one series are compared): x1's spare capacity runs over x2, so an
	// append-based "copy" of x1 lands in x2, and the other way round past the end.
	{
		n1, n2 := len(in.X1), len(in.X2)
		gap := 1 + n1%2
		buf := make([]float64, n1+gap+n2+2*(n1+n2)+4)
		for i := range buf {
			buf[i] = sentinel
		}
		copy(buf, in.X1)
		copy(buf[n1+gap:], in.X2)
		s.x1 = buf[:n1]
		s.x2 = buf[n1+gap : n1+gap+n2]
	}
	asc := append([]float64(nil), in.X1...)
	sort.Float64s(asc)
	s.xa = padF(asc)
	s.adj = make([][]int, len(in.Adj))
	for i, l := range in.Adj {
		s.adj[i] = padI(l)
	}
	s.g = graph.IntGraph(s.adj)
	s.raw0 = s.snapshotRaw() // before any library call touches the shared inputs
	s.bg = graph.MakeBiGraph(s.g)
	lo, hi := stats.Bounds(in.X1)
	if !(lo < hi) {
		hi = lo + 1
	}
	s.hist = stats.NewLinearHist(lo, hi+(hi-lo)*0.01, 8)
	for _, x := range in.X1 {
		s.hist.Add(x)
	}
	s.loghist = stats.NewLogHist(10, 2, 1000)
	for _, x := range in.Pos {
		s.loghist.Add(x * 3)
	}
	for k := 0; k < 3; k++ {
		kd := &stats.KDE{Sample: stats.Sample{Xs: s.x1, Weights: s.w}, Kernel: stats.KDEKernel(k), Bandwidth: (hi - lo) * 0.3}
		if k == 1 {
			kd.BoundaryMin, kd.BoundaryMax = lo-(hi-lo)*0.1, hi+(hi-lo)*0.2
		}
		s.kdes = append(s.kdes, kd)
	}
	lx := make([]float64, len(s.x1))
	for i := range lx {
		lx[i] = float64((i*7)%len(lx)) + 0.25*float64(i%3)
	}
	s.loess = fit.LOESS(lx, s.x1, 1, 0.9)
	s.loess0 = fit.LOESS(s.x2, s.x1, 0, 1)
	s.poly = fit.PolynomialRegression(s.xa, s.x2, nil, 1)
	s.invT = stats.InvCDF(stats.TDist{V: 4.5})
	s.invK = stats.InvCDF(s.kdes[1])
	s.vecF = vec.Vectorize(func(x float64) float64 { return 3*x - 1 })
	s.scc = graphalg.SCC(s.g, graphalg.SCCEdges)
	s.dom = graphalg.Dom(graphalg.IDom(s.bg, 0))
	s.simp = graphalg.SimplifyMulti(s.g)
	var keep []int
	for v := len(s.adj) - 1; v >= 0; v -= 2 {
		keep = append(keep, v)
	}
	s.subK = graph.SubgraphKeep(s.g, keep, nil)
	s.subR = graph.SubgraphRemove(s.g, []int{0}, nil)
	return s
}

// snapshot renders every shared slice (including the spare capacity) bit for bit, plus
// the state of the shared histogram and KDEs.
func (s *shared) snapshot() string {
	var b strings.Builder
	b.WriteString(s.snapshotRaw())
	u, bins, o := s.hist.Counts()
	fmt.Fprintf(&b, "h:%d:%v:%d;", u, bins, o)
	for _, k := range s.kdes {
		fmt.Fprintf(&b, "k:%v:%x:%x:%x;", k.Kernel, math.Float64bits(k.Bandwidth), math.Float64bits(k.BoundaryMin), math.Float64bits(k.BoundaryMax))
	}
	return b.String()
}

// snapshotRaw covers the generated inputs only.
func (s *shared) snapshotRaw() string {
	var b strings.Builder
	ff := func(name string, xs []float64) {
		fmt.Fprintf(&b, "%s:%d:", name, len(xs))
		for _, x := range xs[:cap(xs)] {
			fmt.Fprintf(&b, "%x,", math.Float64bits(x))
		}
		b.WriteByte(';')
	}
	ff("x1", s.x1)
	ff("x2", s.x2)
	ff("pos", s.pos)
	ff("w", s.w)
	ff("xa", s.xa)
	fmt.Fprintf(&b, "t:%v;", s.t[:cap(s.t)])
	for i, l := range s.adj {
		fmt.Fprintf(&b, "a%d:%d:%v;", i, len(l), l[:cap(l)])
	}
	return b.String()
}

func fb(x float64) string { return fmt.Sprintf("%x", math.Float64bits(x)) }

func fs(xs []float64) string {
	var b strings.Builder
	for _, x := range xs {
		b.WriteString(fb(x))
		b.WriteByte(',')
	}
	return b.String()
}

func ferr(err error) string {
	if err == nil {
		return "ok"
	}
	return "err:" + err.Error()
}

type entry struct {
	name string
	call func(s *shared) string
}

var probes = []float64{-3, -0.5, 0, 0.25, 1, 2.5, 7}

func registry() []entry {
	var es []entry
	add := func(name string, f func(s *shared) string) { es = append(es, entry{name, f}) }
	// ---- stats: slices and Samples
	add("stats.Mean", func(s *shared) string { return fb(stats.Mean(s.x1)) })
	add("stats.Variance", func(s *shared) string { return fb(stats.Variance(s.x1)) })
	add("stats.StdDev", func(s *shared) string { return fb(stats.StdDev(s.x1)) })
	add("stats.GeoMean", func(s *shared) string { return fb(stats.GeoMean(s.pos)) })
	add("stats.Bounds", func(s *shared) string { a, b := stats.Bounds(s.x1); return fb(a) + fb(b) })
	add("stats.MeanCI", func(s *shared) string { a, b, c := stats.MeanCI(s.x1, 0.9); return fb(a) + fb(b) + fb(c) })
	smp := func(s *shared) stats.Sample { return stats.Sample{Xs: s.x1} }
	wsmp := func(s *shared) stats.Sample { return stats.Sample{Xs: s.x1, Weights: s.w} }
	add("Sample.Mean", func(s *shared) string { return fb(smp(s).Mean()) + fb(wsmp(s).Mean()) })
	add("Sample.GeoMean", func(s *shared) string {
		return fb(stats.Sample{Xs: s.pos}.GeoMean()) + fb(stats.Sample{Xs: s.pos, Weights: s.w}.GeoMean())
	})
	add("Sample.Sum/Weight", func(s *shared) string {
		return fb(smp(s).Sum()) + fb(wsmp(s).Sum()) + fb(smp(s).Weight()) + fb(wsmp(s).Weight())
	})
	add("Sample.Bounds", func(s *shared) string {
		a, b := smp(s).Bounds()
		c, d := wsmp(s).Bounds()
		e, f := stats.Sample{Xs: s.xa, Sorted: true}.Bounds()
		return fb(a) + fb(b) + fb(c) + fb(d) + fb(e) + fb(f)
	})
	add("Sample.Variance/StdDev/MeanCI", func(s *shared) string {
		a, b, c := smp(s).MeanCI(0.5)
		return fb(smp(s).Variance()) + fb(smp(s).StdDev()) + fb(a) + fb(b) + fb(c)
	})
	add("Sample.Quantile", func(s *shared) string {
		return fb(smp(s).Quantile(s.in.Q)) + fb(wsmp(s).Quantile(s.in.Q)) + fb(stats.Sample{Xs: s.xa, Sorted: true}.Quantile(s.in.Q)) + fb(smp(s).Quantile(0)) + fb(smp(s).Quantile(1))
	})
	add("Sample.IQR", func(s *shared) string { return fb(smp(s).IQR()) + fb(wsmp(s).IQR()) })
	// a weighted sample that says it is sorted: nothing needs copying before use, so nothing
	// protects the caller's values and weights from an in-place step
	wssmp := func(s *shared) stats.Sample { return stats.Sample{Xs: s.xa, Weights: s.w, Sorted: true} }
	add("Sample weighted+Sorted", func(s *shared) string {
		a, b := wssmp(s).Bounds()
		return fb(wssmp(s).Quantile(s.in.Q)) + fb(wssmp(s).Quantile(0.3)) + fb(wssmp(s).IQR()) + fb(wssmp(s).Mean()) + fb(wssmp(s).Sum()) +
			fb(wssmp(s).Weight()) + fb(a) + fb(b) + fb(wssmp(s).Quantile(s.in.Q))
	})
	add("Sample.Copy", func(s *shared) string {
		c := wsmp(s).Copy()
		return fs(c.Xs) + fs(c.Weights)
	})
	// ---- tests
	for _, alt := range []stats.LocationHypothesis{stats.LocationLess, stats.LocationDiffers, stats.LocationGreater} {
		alt := alt
		add(fmt.Sprintf("MannWhitneyUTest(%d)", alt), func(s *shared) string {
			r, err := stats.MannWhitneyUTest(s.x1, s.x2, alt)
			if err != nil {
				return ferr(err)
			}
			return fb(r.U) + fb(r.P)
		})
	}
	tt := func(r *stats.TTestResult, err error) string {
		if err != nil {
			return ferr(err)
		}
		return fb(r.T) + fb(r.DoF) + fb(r.P)
	}
	add("TwoSampleTTest", func(s *shared) string {
		return tt(stats.TwoSampleTTest(stats.Sample{Xs: s.x1}, stats.Sample{Xs: s.x2}, stats.LocationDiffers))
	})
	add("TwoSampleWelchTTest", func(s *shared) string {
		return tt(stats.TwoSampleWelchTTest(stats.Sample{Xs: s.x1}, stats.Sample{Xs: s.x2}, stats.LocationLess))
	})
	add("PairedTTest", func(s *shared) string { return tt(stats.PairedTTest(s.x1, s.x2, 0.5, stats.LocationGreater)) })
	add("OneSampleTTest", func(s *shared) string {
		return tt(stats.OneSampleTTest(stats.Sample{Xs: s.x1}, 1, stats.LocationDiffers))
	})
	add("QuantileCI normal branch", func(s *shared) string {
		var b strings.Builder
		// two confidence levels and sizes above the exact-method threshold in one entry
		for _, n := range []int{31, 64 + s.in.Cnt} {
			for _, c := range []float64{0.9, 0.99, 0.5 + s.in.Q/4} {
				r := stats.QuantileCI(n, s.in.Q, c)
				fmt.Fprint(&b, r.LoOrder, r.HiOrder, r.Ambiguous)
				b.WriteString(fb(r.Confidence))
			}
		}
		return b.String()
	})
	add("QuantileCI/SampleCI", func(s *shared) string {
		r := stats.QuantileCI(len(s.x1), s.in.Q, 0.9)
		a, b, c := r.SampleCI(stats.Sample{Xs: s.x1})
		return fmt.Sprint(r.LoOrder, r.HiOrder, r.Ambiguous) + fb(r.Confidence) + fb(a) + fb(b) + fb(c)
	})
	// ---- distributions
	add("UDist", func(s *shared) string {
		n1 := 0
		tot := 0
		for _, t := range s.t {
			tot += t
		}
		n1 = tot / 2
		if n1 < 1 {
			n1 = 1
		}
		d := stats.UDist{N1: n1, N2: tot - n1, T: s.t}
		var b strings.Builder
		for u := 0.0; u <= float64(n1*(tot-n1)); u += 0.5 {
			b.WriteString(fb(d.CDF(u)))
			b.WriteString(fb(d.PMF(u)))
		}
		e := stats.UDist{N1: 4, N2: 5}
		return b.String() + fb(e.CDF(7)) + fb(e.PMF(7))
	})
	// tied U distributions whose subset counts exceed 2^53: from there on sums of counts round, so
	// that the order in which a table is accumulated (the iteration order of a map, say) shows in
	// the last bits - results must still be the same from call to call
	add("UDist tied, counts beyond 2^53", func(s *shared) string {
		var b strings.Builder
		// (few tie groups keep the tables small: a fraction of a millisecond per call, which the race
		// detector and the repetitions of the registry multiply by several hundred)
		for _, d := range []stats.UDist{
			{N1: 30, N2: 30, T: []int{10, 10, 10, 10, 10, 10}},
			{N1: 32, N2: 32, T: []int{16, 16, 8, 8, 16}},
			{N1: 24, N2: 46, T: []int{20, 25, 25}},
		} {
			mid := float64(d.N1*d.N2) / 2
			for _, u := range []float64{mid - 40.5, mid + 17.5} {
				b.WriteString(fb(d.CDF(u)))
				b.WriteString(fb(d.PMF(u)))
			}
		}
		return b.String()
	})
	add("distributions", func(s *shared) string {
		var b strings.Builder
		nd := stats.NormalDist{Mu: 1, Sigma: 2}
		td := stats.TDist{V: 3.5}
		bd := stats.BinomialDist{N: 12, P: 0.3}
		hd := stats.HypergeometicDist{N: 20, K: 7, Draws: 5}
		inv := stats.InvCDF(td)
		for _, x := range probes {
			b.WriteString(fb(nd.PDF(x)) + fb(nd.CDF(x)) + fb(td.PDF(x)) + fb(td.CDF(x)) + fb(bd.PMF(x)) + fb(bd.CDF(x)) + fb(hd.PMF(x)) + fb(hd.CDF(x)))
		}
		for _, p := range []float64{0.01, 0.3, 0.5, 0.9} {
			b.WriteString(fb(nd.InvCDF(p)) + fb(inv(p)))
		}
		return b.String()
	})
	for k := 0; k < 3; k++ {
		k := k
		add(fmt.Sprintf("KDE(%d)", k), func(s *shared) string {
			kd := s.kdes[k]
			var b strings.Builder
			for _, x := range probes {
				b.WriteString(fb(kd.CDF(x)))
				if k != 2 {
					b.WriteString(fb(kd.PDF(x)))
				}
			}
			if k != 2 {
				lo, hi := kd.Bounds()
				b.WriteString(fb(lo) + fb(hi))
			}
			return b.String()
		})
	}
	add("Bandwidth rules", func(s *shared) string {
		return fb(stats.BandwidthScott(stats.Sample{Xs: s.x1})) + fb(stats.BandwidthSilverman(stats.Sample{Xs: s.x1}))
	})
	add("Histogram", func(s *shared) string {
		return fb(stats.HistogramQuantile(s.hist, s.in.Q)) + fb(stats.HistogramIQR(s.hist)) + fb(s.hist.BinToValue(2.5))
	})
	add("LogHist/DeltaDist/Rand", func(s *shared) string {
		lh := s.loghist
		dd := stats.DeltaDist{T: s.in.Q}
		// every caller brings its own random source; the distributions are the shared part
		r := rand.New(rand.NewSource(int64(s.in.Cnt) + 7))
		draw := stats.Rand(stats.TDist{V: 3})
		drawK := stats.Rand(s.kdes[0])
		drawN := stats.Rand(stats.NormalDist{Mu: 1, Sigma: 2})
		lo, hi := lh.Bounds()
		return fb(stats.HistogramQuantile(lh, s.in.Q)) + fb(lh.At(2.5)) + fb(lo) + fb(hi) + fb(lh.BinToValue(1.5)) +
			fb(dd.CDF(0.5)) + fb(dd.PDF(s.in.Q)) + fb(stats.InvCDF(dd)(0.3)) + fb(draw(r)) + fb(drawK(r)) + fb(drawN(r))
	})
	// ---- mathx
	add("mathx", func(s *shared) string {
		return fb(mathx.BetaInc(s.in.Q, 2.5, 3)) + fb(mathx.GammaInc(2.5, 1+s.in.Q)) + fb(mathx.GammaIncComp(2.5, 1+s.in.Q)) +
			fb(mathx.Choose(30, s.in.Cnt)) + fb(mathx.Lchoose(30, s.in.Cnt)) + fb(mathx.Choose(15, s.in.Cnt%15)) + fb(mathx.Beta(2, 3.5))
	})
	// ---- vec
	add("vec", func(s *shared) string {
		calls := 0
		f := func(x float64) float64 { calls++; return x*2 + 1 }
		return fb(vec.Sum(s.x1)) + fs(vec.Map(f, s.x1)) + fs(vec.Vectorize(f)(s.x2)) + fs(vec.Concat(s.x1, s.x2, s.pos)) +
			fs(vec.Linspace(s.in.Q, 3, 5)) + fs(vec.Logspace(0, 2, 4, 10)) + fmt.Sprint(calls)
	})
	// ---- fit
	add("fit.LinearLeastSquares", func(s *shared) string {
		one := func(xs, out []float64) {
			for i := range out {
				out[i] = 1
			}
		}
		lin := func(xs, out []float64) { copy(out, xs) }
		return fs(fit.LinearLeastSquares(s.xa, s.x2, nil, one, lin)) + fs(fit.LinearLeastSquares(s.xa, s.x2, s.pos, one, lin))
	})
	add("fit.PolynomialRegression", func(s *shared) string {
		r := fit.PolynomialRegression(s.xa, s.x2, s.pos, 1)
		return fs(r.Coefficients) + fb(r.F(0.5))
	})
	add("fit.LOESS", func(s *shared) string {
		// distinct abscissae are needed for a well-posed local fit: use positions, unsorted
		xs := make([]float64, len(s.x1))
		for i := range xs {
			xs[i] = float64((i*7)%len(xs)) + 0.25*float64(i%3)
		}
		f := fit.LOESS(xs, s.x1, 1, 0.9)
		g := fit.LOESS(s.x2, s.x1, 0, 1) // unsorted with ties, degree 0
		return fb(f(1.5)) + fb(f(float64(len(xs))/2)) + fb(g(s.x2[0]))
	})
	// ---- scale
	add("scale", func(s *shared) string {
		lin := scale.Linear{Min: -2, Max: 7.5}
		lg, _ := scale.NewLog(0.5, 2000, 10)
		o := scale.TickOptions{Max: 6}
		var b strings.Builder
		for _, x := range probes {
			b.WriteString(fb(lin.Map(x)) + fb(lin.Unmap(x)) + fb(lg.Map(x+4)) + fb(lg.Unmap(x/7)))
		}
		a, c := lin.Ticks(o)
		d, e := lg.Ticks(o)
		l2 := lin
		l2.Nice(o)
		g2 := lg
		g2.Nice(o)
		q := scale.QQ{Src: &lin, Dest: &lg}
		lvl, ok := o.FindLevel(lin, 0)
		return b.String() + fs(a) + fs(c) + fs(d) + fs(e) + fb(l2.Min) + fb(l2.Max) + fb(g2.Min) + fb(g2.Max) + fb(q.Map(1)) + fb(q.Unmap(10)) + fmt.Sprint(lvl, ok, lin.CountTicks(0), lin.TicksAtLevel(0))
	})
	// ---- graphs
	add("graph.Equal/MakeBiGraph", func(s *shared) string {
		rev := make(graph.IntGraph, len(s.adj))
		for i, l := range s.adj {
			r := append([]int(nil), l...)
			for a, b := 0, len(r)-1; a < b; a, b = a+1, b-1 {
				r[a], r[b] = r[b], r[a]
			}
			rev[i] = r
		}
		bg := graph.MakeBiGraph(s.g)
		var b strings.Builder
		for i := range s.adj {
			fmt.Fprint(&b, bg.In(i))
		}
		return fmt.Sprint(graph.Equal(s.g, rev), graph.Equal(rev, s.g), graph.Equal(s.g, s.g)) + b.String()
	})
	add("graph.Subgraph", func(s *shared) string {
		n := len(s.adj)
		var keep []int
		for v := n - 1; v >= 0; v -= 2 {
			keep = append(keep, v)
		}
		kept := map[int]bool{}
		for _, v := range keep {
			kept[v] = true
		}
		var edges []graph.Edge
		for _, u := range keep {
			for e, v := range s.adj[u] {
				if kept[v] {
					edges = append(edges, graph.Edge{Node: u, Edge: e})
				}
			}
		}
		k := graph.SubgraphKeep(s.g, keep, edges)
		r := graph.SubgraphRemove(s.g, []int{0}, []graph.Edge{{Node: n - 1, Edge: 0}})
		var b strings.Builder
		for i := 0; i < k.NumNodes(); i++ {
			fmt.Fprint(&b, k.Out(i))
		}
		for i := 0; i < r.NumNodes(); i++ {
			fmt.Fprint(&b, r.Out(i))
		}
		return b.String()
	})
	add("graphalg.orders/Euler", func(s *shared) string {
		var tour []int
		graphalg.Euler{Enter: func(n int) { tour = append(tour, n) }, Exit: func(n int) { tour = append(tour, -n-1) }}.Visit(s.g, 0)
		return fmt.Sprint(graphalg.PreOrder(s.g, 0), graphalg.PostOrder(s.g, 0), tour)
	})
	add("graphalg.SCC/SimplifyMulti", func(s *shared) string {
		c := graphalg.SCC(s.g, graphalg.SCCEdges)
		var b strings.Builder
		for i := 0; i < c.NumNodes(); i++ {
			fmt.Fprint(&b, c.Subnodes(i), c.Out(i))
		}
		m := graphalg.SimplifyMulti(s.g)
		for i := 0; i < m.NumNodes(); i++ {
			fmt.Fprint(&b, m.Out(i))
			for e := range m.Out(i) {
				b.WriteString(fb(m.OutWeight(i, e)))
			}
		}
		return b.String()
	})
	add("graphalg.dominators", func(s *shared) string {
		idom := graphalg.IDom(s.bg, 0)
		df := graphalg.DomFrontier(s.bg, 0, idom)
		t := graphalg.Dom(idom)
		var b strings.Builder
		for i := 0; i < t.NumNodes(); i++ {
			fmt.Fprint(&b, t.Out(i))
		}
		// the same shared graph seen from other roots (what is unreachable from 0 matters there)
		n := s.bg.NumNodes()
		for _, r := range []int{n - 1, n / 2} {
			fmt.Fprint(&b, graphalg.IDom(s.bg, r), graphalg.DomFrontier(s.bg, r, nil))
		}
		// and the predecessor lists of the shared BiGraph themselves
		for i := 0; i < n; i++ {
			fmt.Fprint(&b, s.bg.In(i))
		}
		return fmt.Sprint(idom, df) + b.String()
	})
	add("graphalg on a 2600-node graph", func(s *shared) string {
		// node ids beyond every initial container size (1024 marks, 64-bit words): scratch
		// state recycled between calls shows as a different traversal
		h := fnv.New64a()
		var tour int
		graphalg.Euler{Enter: func(n int) { tour += n }, Exit: func(n int) { tour ^= n }}.Visit(bigGraph, 0)
		idom := graphalg.IDom(bigBiGraph, 0)
		c := graphalg.SCC(bigGraph, graphalg.SCCEdges)
		fmt.Fprint(h, graphalg.PreOrder(bigGraph, 0), graphalg.PostOrder(bigGraph, 0), tour, idom, graphalg.DomFrontier(bigBiGraph, 0, idom), c.NumNodes(), c.Out(c.NumNodes()-1))
		return fmt.Sprintf("%x", h.Sum64())
	})
	// ---- shared results of earlier calls, used (possibly concurrently) by many callers
	add("shared fitted functions", func(s *shared) string {
		var b strings.Builder
		for _, x := range probes {
			b.WriteString(fb(s.loess(x)) + fb(s.loess0(x)) + fb(s.poly.F(x)))
		}
		return b.String() + s.poly.String()
	})
	add("shared quantile functions", func(s *shared) string {
		var b strings.Builder
		for _, p := range []float64{0.02, 0.3, 0.5, 0.77, 0.99} {
			b.WriteString(fb(s.invT(p)) + fb(s.invK(p)))
		}
		return b.String() + fs(s.vecF(s.x1))
	})
	add("shared derived graphs", func(s *shared) string {
		var b strings.Builder
		for i := 0; i < s.scc.NumNodes(); i++ {
			fmt.Fprint(&b, s.scc.Subnodes(i), s.scc.Out(i))
		}
		for i := 0; i < s.dom.NumNodes(); i++ {
			fmt.Fprint(&b, s.dom.Out(i), s.dom.IDom(i))
		}
		for i := 0; i < s.simp.NumNodes(); i++ {
			fmt.Fprint(&b, s.simp.Out(i))
		}
		nm := s.subK.NodeMap(func(n int) interface{} { return n })
		for i := 0; i < s.subK.NumNodes(); i++ {
			fmt.Fprint(&b, s.subK.Out(i), nm(i))
		}
		for i := 0; i < s.subR.NumNodes(); i++ {
			fmt.Fprint(&b, s.subR.Out(i))
		}
		fmt.Fprint(&b, graphalg.PreOrder(s.dom, 0), graph.Equal(s.simp, s.simp), graphalg.PostOrder(s.subR, 0))
		return b.String()
	})
	add("graphout.Dot", func(s *shared) string {
		return graphout.Dot{Name: "g\"1", Label: func(n int) string { return fmt.Sprintf("n{%d}", n) }}.Sprint(s.g)
	})
	return es
}

var reg = registry()

var checkPure = ev.Register("purity-determinism-races", func(in *Inputs) ev.Outcome {
	n := len(in.X1)
	if n < 4 || len(in.X2) != n || len(in.Pos) != n || len(in.W) != n || len(in.Adj) < 2 || len(in.T) < 2 {
		return ev.Fail("harness error: inputs")
	}
	s := build(in)
	if s.snapshotRaw() != s.raw0 {
		return ev.Fail("a call made while deriving the shared objects (MakeBiGraph, LOESS, PolynomialRegression, InvCDF, SCC, IDom/Dom, SimplifyMulti, Subgraph*, histogram/KDE construction) modified an input:\nbefore %s\nafter  %s", diff(s.raw0, s.snapshotRaw()), diff(s.snapshotRaw(), s.raw0))
	}
	base := s.snapshot()
	first := make([]string, len(reg))
	sequential := func() ev.Outcome {
		// (1) arguments untouched, (2) repeat after unrelated calls: bit-identical
		for i, e := range reg {
			got := e.call(s)
			if first[i] == "" {
				first[i] = got
			} else if got != first[i] {
				return ev.Fail("%s returned a different result sequentially than concurrently\nconcurrent %s\nsequential %s", e.name, clip(first[i]), clip(got))
			}
			if after := s.snapshot(); after != base {
				return ev.Fail("%s modified an argument:\nbefore %s\nafter  %s", e.name, diff(base, after), diff(after, base))
			}
		}
		for i := len(reg) - 1; i >= 0; i-- { // a different order: each call now follows other calls
			e := reg[i]
			if again := e.call(s); again != first[i] {
				return ev.Fail("%s is not deterministic: a second call with equal arguments (after unrelated calls) returned a different result\nfirst  %s\nsecond %s", e.name, clip(first[i]), clip(again))
			}
		}
		if after := s.snapshot(); after != base {
			return ev.Fail("arguments modified during the second round")
		}
		return ev.Outcome{}
	}
	concurrent := func() ev.Outcome {
		// (3) 16 goroutines on the same shared inputs, each in a different order
		const G = 16
		var wg sync.WaitGroup
		var mu sync.Mutex
		var failure string
		results := make([][]string, G)
		for gi := 0; gi < G; gi++ {
			wg.Add(1)
			results[gi] = make([]string, len(reg))
			go func(gi int) {
				defer wg.Done()
				defer func() {
					if r := recover(); r != nil {
						mu.Lock()
						failure = fmt.Sprintf("panic in a concurrent call: %v", r)
						mu.Unlock()
					}
				}()
				for k := range reg {
					// each goroutine walks the registry in its own order: a rotation, reversed for odd ones
					i := (k + gi*5) % len(reg)
					if gi%2 == 1 {
						i = len(reg) - 1 - i
					}
					results[gi][i] = reg[i].call(s)
				}
			}(gi)
		}
		wg.Wait()
		if failure != "" {
			return ev.Fail("%s", failure)
		}
		for gi := 0; gi < G; gi++ {
			for i := range reg {
				want := first[i]
				if want == "" {
					want = results[0][i]
				}
				if results[gi][i] != want {
					return ev.Fail("%s returned different results when called concurrently\nexpected %s\ngoroutine %d: %s", reg[i].name, clip(want), gi, clip(results[gi][i]))
				}
			}
		}
		for i := range reg {
			if first[i] == "" {
				first[i] = results[0][i]
			}
		}
		if after := s.snapshot(); after != base {
			return ev.Fail("arguments modified during the concurrent round:\nbefore %s\nafter  %s", diff(base, after), diff(after, base))
		}
		return ev.Outcome{}
	}
	neighbours := func() ev.Outcome {
		p0 := 0.05 + 0.9*in.Q
		for _, e := range preg {
			for _, d := range []float64{1e-7, -3e-10, 1e-13, 0} {
				p1 := p0 * (1 + d)
				if d == 0 {
					p1 = math.Nextafter(p0, 1)
				}
				a := e.call(s, p0)
				b1 := e.call(s, p1) // directly after its neighbour
				e.call(s, 1-p0)     // somewhere else entirely
				e.call(s, 0.5*p0)
				b2 := e.call(s, p1) // after unrelated calls
				a2 := e.call(s, p0)
				if b1 != b2 || a != a2 {
					return ev.Fail("%s depends on the calls made before: at p=%v it returned\n%s directly after the call at p=%v, but\n%s after calls elsewhere (and at p=%v: %s / %s)", e.name, p1, clip(b1), p0, clip(b2), p0, clip(a), clip(a2))
				}
			}
		}
		if after := s.snapshot(); after != base {
			return ev.Fail("arguments modified during the neighbour phase:\nbefore %s\nafter  %s", diff(base, after), diff(after, base))
		}
		return ev.Outcome{}
	}
	order := []func() ev.Outcome{sequential, concurrent, neighbours}
	if in.ConcurrentFirst {
		order = []func() ev.Outcome{concurrent, sequential, neighbours}
	}
	for _, phase := range order {
		if out := phase(); out.Err != nil {
			return out
		}
	}
	const G = 16
	ev.AddCount("api_calls", int64(len(reg)*(2+G)+len(preg)*24))
	// non-trivial: unsorted with a tie
	tie := false
	seen := map[float64]bool{}
	for _, x := range in.X1 {
		if seen[x] {
			tie = true
		}
		seen[x] = true
	}
	cl := "sequential-first"
	if in.ConcurrentFirst {
		cl = "concurrent-first"
	}
	return ev.OK(n >= 3 && tie && !sort.Float64sAreSorted(in.X1), "registry", cl)
})

// pentry is an API call with one real parameter in (0,1): used by the neighbour phase, which
// looks for state keyed by an *approximately* equal argument (a cache with a tolerant hit test):
// f(p1) directly after f(p0), p1 within 1e-15..1e-6 of p0, must equal f(p1) after an unrelated
// far-away call has displaced whatever f(p0) left behind.
type pentry struct {
	name string
	call func(s *shared, p float64) string
}

func pregistry() []pentry {
	var es []pentry
	add := func(name string, f func(s *shared, p float64) string) { es = append(es, pentry{name, f}) }
	add("MeanCI(c)", func(s *shared, p float64) string {
		a, b, c := stats.MeanCI(s.x1, p)
		d, e, f := stats.Sample{Xs: s.x2}.MeanCI(p)
		return fb(a) + fb(b) + fb(c) + fb(d) + fb(e) + fb(f)
	})
	add("QuantileCI(c)", func(s *shared, p float64) string {
		return fmt.Sprintf("%+v%+v", stats.QuantileCI(len(s.x1), 0.3, p), stats.QuantileCI(len(s.x1)+40, 0.6, p))
	})
	add("QuantileCI(q)", func(s *shared, p float64) string {
		return fmt.Sprintf("%+v%+v", stats.QuantileCI(len(s.x1), p, 0.9), stats.QuantileCI(len(s.x1)+40, p, 0.9))
	})
	add("Sample.Quantile(q)", func(s *shared, p float64) string {
		return fb(stats.Sample{Xs: s.x1}.Quantile(p)) + fb(stats.Sample{Xs: s.x1, Weights: s.w}.Quantile(p)) + fb(stats.Sample{Xs: s.xa, Sorted: true}.Quantile(p)) +
			fb(stats.Sample{Xs: s.xa, Weights: s.w, Sorted: true}.Quantile(p))
	})
	add("distributions(x)", func(s *shared, p float64) string {
		t, n := stats.TDist{V: 4.5}, stats.NormalDist{Mu: 1, Sigma: 2}
		u := stats.UDist{N1: 5, N2: 7}
		return fb(t.CDF(3*p)) + fb(t.PDF(3*p)) + fb(n.CDF(3*p)) + fb(n.InvCDF(p)) + fb(s.invT(p)) + fb(s.invK(p)) + fb(u.CDF(35*p)) +
			fb(stats.BinomialDist{N: 30, P: p}.PMF(11)) + fb(stats.BinomialDist{N: 30, P: p}.CDF(11))
	})
	add("mathx(x)", func(s *shared, p float64) string {
		return fb(mathx.BetaInc(p, 2.5, 3.5)) + fb(mathx.GammaInc(2.5, 6*p)) + fb(mathx.GammaIncComp(2.5, 6*p)) + fb(mathx.Beta(1+p, 2))
	})
	add("KDE(x)", func(s *shared, p float64) string {
		lo, hi := stats.Bounds(s.in.X1)
		x := lo + p*(hi-lo)
		var b strings.Builder
		for _, k := range s.kdes {
			b.WriteString(fb(k.PDF(x)) + fb(k.CDF(x)))
		}
		return b.String()
	})
	add("HistogramQuantile(q)", func(s *shared, p float64) string {
		return fb(stats.HistogramQuantile(s.hist, p)) + fb(stats.HistogramQuantile(s.loghist, p))
	})
	add("scales(x)", func(s *shared, p float64) string {
		lin := scale.Linear{Min: -2, Max: 7}
		lg, _ := scale.NewLog(0.5, 300, 10)
		return fb(lin.Map(9*p-2)) + fb(lin.Unmap(p)) + fb(lg.Map(0.5+299*p)) + fb(lg.Unmap(p))
	})
	add("fitted functions(x)", func(s *shared, p float64) string {
		x := p * float64(len(s.x1))
		return fb(s.loess(x)) + fb(s.loess0(x)) + fb(s.poly.F(x))
	})
	return es
}

var preg = pregistry()

func clip(s string) string {
	if len(s) > 300 {
		return s[:300] + "..."
	}
	return s
}

// diff shows the part of a that differs from b.
func diff(a, b string) string {
	pa, pb := strings.Split(a, ";"), strings.Split(b, ";")
	var out []string
	for i := range pa {
		if i >= len(pb) || pa[i] != pb[i] {
			out = append(out, pa[i])
		}
	}
	return clip(strings.Join(out, ";"))
}

const rule = "A registry of the exported API taking slices, Samples, graphs or distributions (" +
	"stats descriptive statistics, Sample methods, Mann-Whitney, the four t-tests, QuantileCI/SampleCI, UDist with a shared tie " +
	"vector, Normal/T/Binomial/Hypergeometric, generic InvCDF, KDEs with pre-set bandwidth, bandwidth rules, histogram queries; " +
	"mathx; vec; fit least squares / polynomial / LOESS; scale maps, ticks, Nice on copies, QQ, FindLevel; graph Equal, MakeBiGraph, " +
	"subgraphs; graphalg orders, Euler, SCC, SimplifyMulti, dominators; graphout.Dot; and the shared results of earlier calls: fitted " +
	"LOESS / polynomial functions, quantile functions returned by InvCDF, SCC graphs, dominator trees, subgraphs) is run on rapid-generated shared inputs " +
	"that are unsorted and contain ties (graphs: unsorted adjacency lists with duplicates). (1) a bit-for-bit snapshot of every " +
	"shared slice, including spare capacity filled with a sentinel, must be unchanged after every call; (2) every call repeated " +
	"in another order must return a bit-identical result; (3) 16 goroutines run the whole registry concurrently in different " +
	"orders on the same inputs: same results, and the binary is built with -race (a report stops the process and is a violation). " +
	"Non-trivial: the main sample is unsorted and has a tie. distinct = canonical JSON of the inputs. Later additions: neighbour-argument phase, a 2600-node graph, weighted Sorted samples, tied U distributions with counts beyond 2^53, windows of one buffer as arguments."

func drawInputs(t *rapid.T) *Inputs {
	n := rapid.IntRange(4, 14).Draw(t, "n")
	levels := rapid.IntRange(2, n).Draw(t, "levels")
	vals := gen.Increasing(t, levels, rapid.IntRange(0, 1).Draw(t, "style"), "vals")
	in := &Inputs{Q: rapid.Float64Range(0.05, 0.95).Draw(t, "q"), Cnt: rapid.IntRange(0, 30).Draw(t, "cnt"), ConcurrentFirst: rapid.Bool().Draw(t, "concurrentFirst")}
	for i := 0; i < n; i++ {
		in.X1 = append(in.X1, vals[rapid.IntRange(0, levels-1).Draw(t, "l1")])
		in.X2 = append(in.X2, vals[rapid.IntRange(0, levels-1).Draw(t, "l2")]+0.5)
		in.Pos = append(in.Pos, 0.5+float64(rapid.IntRange(0, 6).Draw(t, "pos"))/2)
		in.W = append(in.W, float64(rapid.IntRange(0, 3).Draw(t, "w")))
	}
	// force a tie and disorder in X1, and a positive weight
	in.X1[n-1] = in.X1[0]
	if in.X1[1] >= in.X1[0] {
		in.X1[1] = in.X1[0] - 1 - float64(rapid.IntRange(0, 3).Draw(t, "drop"))
	}
	in.W[rapid.IntRange(0, n-1).Draw(t, "wpos")] = 1
	in.T = gen.Composition(t, rapid.IntRange(3, 9).Draw(t, "tn"), rapid.SampledFrom([]int{4, 2, 1, 3}).Draw(t, "tstyle"), "T")
	if len(in.T) < 2 {
		in.T = append(in.T, 1)
	}
	gn := rapid.IntRange(2, 9).Draw(t, "gn")
	for u := 0; u < gn; u++ {
		l := []int{}
		for k := rapid.IntRange(1, 4).Draw(t, "deg"); k > 0; k-- {
			l = append(l, rapid.IntRange(0, gn-1).Draw(t, "to"))
		}
		if len(l) >= 2 && rapid.Bool().Draw(t, "dup") {
			l[len(l)-1] = l[0]
		}
		in.Adj = append(in.Adj, l)
	}
	return in
}

func TestPurity(t *testing.T) {
	ev.Rule(rule)
	ev.Note("registry_entries", len(reg))
	ev.Rapid(t, "c20-purity", 250, 8000, func(rt *rapid.T) {
		checkPure.Run(rt, drawInputs(rt))
	})
}
