// Package c15 decides property C15: least squares, polynomial regression and
// LOESS compute the fits they define.
package c15

import (
	"fmt"
	"math"
	"math/big"
	"sort"
	"strconv"
	"strings"
	"testing"

	"github.com/aclements/go-moremath/fit"
	"gonum.org/v1/gonum/mat"
	"pgregory.net/rapid"

	"verifharness/internal/ev"
	"verifharness/internal/gen"
	"verifharness/internal/ref"
)

func TestMain(m *testing.M) { ev.Main(m, "C15") }

func TestReplay(t *testing.T) { ev.Replay(t) }

const condLimit = 1e10

type basisFn struct {
	name string
	f    func(float64) float64
}

var basisTable = map[string]func(float64) float64{
	"1":   func(x float64) float64 { return 1 },
	"x":   func(x float64) float64 { return x },
	"x2":  func(x float64) float64 { return x * x },
	"x3":  func(x float64) float64 { return x * x * x },
	"x4":  func(x float64) float64 { return x * x * x * x },
	"sin": math.Sin,
	"cos": math.Cos,
	"exp": math.Exp,
	// more "arbitrary smooth" functions: bounded, shifted, orthogonal-polynomial-like, rational
	"tanh": math.Tanh,
	"x+1":  func(x float64) float64 { return x + 1 },
	"p2":   func(x float64) float64 { return (3*x*x - 1) / 2 },
	"rat":  func(x float64) float64 { return 1 / (1 + x*x) },
}

// basisFunc resolves a basis name; "2.5*sin" is the function 2.5 sin x (so "2.5*1" is a constant
// term that is not the function 1).
func basisFunc(name string) (func(float64) float64, bool) {
	scale := 1.0
	if i := strings.Index(name, "*"); i >= 0 {
		v, err := strconv.ParseFloat(name[:i], 64)
		if err != nil {
			return nil, false
		}
		scale, name = v, name[i+1:]
	}
	f, ok := basisTable[name]
	if !ok {
		return nil, false
	}
	if scale == 1 {
		return f, true
	}
	return func(x float64) float64 { return scale * f(x) }, true
}

func term(f func(float64) float64) func(xs, out []float64) {
	return func(xs, out []float64) {
		for i, x := range xs {
			out[i] = f(x)
		}
	}
}

// design returns the n x p design matrix and sqrt-weighted copies.
func design(xs []float64, fs []func(float64) float64) *mat.Dense {
	X := mat.NewDense(len(xs), len(fs), nil)
	for i, x := range xs {
		for j, f := range fs {
			X.Set(i, j, f(x))
		}
	}
	return X
}

// condNormal is the 2-norm condition number of X^T W X (= cond(sqrt(W) X)^2).
func condNormal(X *mat.Dense, w []float64) float64 {
	n, p := X.Dims()
	A := mat.NewDense(n, p, nil)
	for i := 0; i < n; i++ {
		s := 1.0
		if w != nil {
			s = math.Sqrt(w[i])
		}
		for j := 0; j < p; j++ {
			A.Set(i, j, s*X.At(i, j))
		}
	}
	var svd mat.SVD
	if !svd.Factorize(A, mat.SVDNone) {
		return math.Inf(1)
	}
	c := svd.Cond()
	return c * c
}

// qrFit solves the weighted least squares problem by QR (independent of the
// library's normal equations).
func qrFit(X *mat.Dense, ys, w []float64) []float64 {
	n, p := X.Dims()
	A := mat.NewDense(n, p, nil)
	b := mat.NewVecDense(n, nil)
	for i := 0; i < n; i++ {
		s := 1.0
		if w != nil {
			s = math.Sqrt(w[i])
		}
		for j := 0; j < p; j++ {
			A.Set(i, j, s*X.At(i, j))
		}
		b.SetVec(i, s*ys[i])
	}
	var qr mat.QR
	qr.Factorize(A)
	var sol mat.VecDense
	if err := qr.SolveVecTo(&sol, false, b); err != nil {
		return nil
	}
	out := make([]float64, p)
	for j := range out {
		out[j] = sol.AtVec(j)
	}
	return out
}

// sse is the weighted sum of squared residuals in 400-bit arithmetic.
func sse(X *mat.Dense, ys, w, beta []float64) *big.Float {
	n, p := X.Dims()
	s := ref.BI(0)
	for i := 0; i < n; i++ {
		r := ref.B(ys[i])
		for j := 0; j < p; j++ {
			r = ref.Sub(r, ref.Mul(ref.B(X.At(i, j)), ref.B(beta[j])))
		}
		t := ref.Mul(r, r)
		if w != nil {
			t = ref.Mul(t, ref.B(w[i]))
		}
		s = ref.Add(s, t)
	}
	return s
}

// norm2 is the Euclidean norm, scaled so that tiny or huge entries neither
// underflow nor overflow when squared.
func norm2(v []float64) float64 {
	m := 0.0
	for _, x := range v {
		m = math.Max(m, math.Abs(x))
	}
	if m == 0 || math.IsInf(m, 0) {
		return m
	}
	s := 0.0
	for _, x := range v {
		s += (x / m) * (x / m)
	}
	return m * math.Sqrt(s)
}

// LSCase is one LinearLeastSquares call.
type LSCase struct {
	Xs    []float64 `json:"xs"`
	Ys    []float64 `json:"ys"`
	W     []float64 `json:"w,omitempty"`
	Basis []string  `json:"basis"`
}

func bitsEq(a, b []float64) bool {
	if len(a) != len(b) {
		return false
	}
	for i := range a {
		if math.Float64bits(a[i]) != math.Float64bits(b[i]) {
			return false
		}
	}
	return true
}

var checkLS = ev.Register("least-squares", func(c *LSCase) ev.Outcome {
	n := len(c.Xs)
	p := len(c.Basis)
	if n != len(c.Ys) || (c.W != nil && len(c.W) != n) || p < 1 || n < p+1 {
		return ev.Fail("harness error: shape")
	}
	fs := make([]func(float64) float64, p)
	terms := make([]func(xs, out []float64), p)
	for j, name := range c.Basis {
		f, ok := basisFunc(name)
		if !ok {
			return ev.Fail("harness error: basis %q", name)
		}
		fs[j], terms[j] = f, term(f)
	}
	X := design(c.Xs, fs)
	cond := condNormal(X, c.W)
	if !(cond < condLimit) {
		return ev.OK(false, "discarded-ill-conditioned")
	}
	xs, ys := append([]float64(nil), c.Xs...), append([]float64(nil), c.Ys...)
	var w []float64
	if c.W != nil {
		w = append([]float64(nil), c.W...)
	}
	beta := fit.LinearLeastSquares(xs, ys, w, terms...)
	if !bitsEq(xs, c.Xs) || !bitsEq(ys, c.Ys) || (c.W != nil && !bitsEq(w, c.W)) {
		return ev.Fail("LinearLeastSquares modified its arguments")
	}
	if len(beta) != p {
		return ev.Fail("%d coefficients for %d basis functions", len(beta), p)
	}
	for _, b := range beta {
		if math.IsNaN(b) || math.IsInf(b, 0) {
			return ev.Fail("coefficients %v", beta)
		}
	}
	wi := func(i int) float64 {
		if c.W == nil {
			return 1
		}
		return c.W[i]
	}
	// normal equations: the weighted residual is orthogonal to every basis function
	nf := float64(n)
	for j := 0; j < p; j++ {
		g := ref.BI(0)
		// A backward-stable solver (normal equations on a well-conditioned design, QR, SVD)
		// perturbs each column of the design normwise, not row by row, so the rounding error
		// of the gradient is bounded through the weighted 2-norms of the column and of the
		// magnitudes that make up the residual, not through their row-wise products (which
		// are far smaller when the large y sit where the basis function is nearly 0).
		col, mag := make([]float64, n), make([]float64, n)
		for i := 0; i < n; i++ {
			r := ref.B(c.Ys[i])
			abs := math.Abs(c.Ys[i])
			for k := 0; k < p; k++ {
				r = ref.Sub(r, ref.Mul(ref.B(X.At(i, k)), ref.B(beta[k])))
				abs += math.Abs(X.At(i, k) * beta[k])
			}
			g = ref.Add(g, ref.Mul(ref.Mul(ref.B(wi(i)), ref.B(X.At(i, j))), r))
			sw := math.Sqrt(wi(i))
			col[i], mag[i] = sw*X.At(i, j), sw*abs
		}
		scale := norm2(col) * norm2(mag)
		tol := 64 * nf * ref.Eps * scale * math.Sqrt(cond)
		if gf := math.Abs(ref.F64(g)); !(gf <= tol) {
			return ev.Fail("normal equation %d (%s): weighted residual has inner product %.3g with the basis function (tol %.3g, cond %.3g)", j, c.Basis[j], gf, tol, cond)
		} else {
			ev.MaxErr("normal-equation", gf/tol)
		}
	}
	// no perturbation of a coefficient lowers the sum
	base := sse(X, c.Ys, c.W, beta)
	bmax := 1e-3
	for _, b := range beta {
		bmax = math.Max(bmax, math.Abs(b))
	}
	for j := 0; j < p; j++ {
		for _, sgn := range []float64{1, -1} {
			pert := append([]float64(nil), beta...)
			pert[j] += sgn * 1e-4 * bmax
			other := sse(X, c.Ys, c.W, pert)
			lim := ref.Mul(other, ref.B(1+1e-12))
			if base.Cmp(lim) > 0 && ref.F64(ref.Sub(base, other)) > 1e-20 {
				return ev.Fail("changing coefficient %d by %g lowers the sum of squares from %.17g to %.17g", j, sgn*1e-4*bmax, ref.F64(base), ref.F64(other))
			}
		}
	}
	// independent solution by QR
	ymax := 0.0
	for _, y := range c.Ys {
		ymax = math.Max(ymax, math.Abs(y))
	}
	if q := qrFit(X, c.Ys, c.W); q != nil {
		for j := range q {
			// both solvers carry rounding errors of the size eps*|y| in the right-hand side,
			// which move coefficient j by up to eps*|y|/|column j|, whatever the size of the
			// coefficient itself (a mean of data in [-10,10] can be 0)
			colmax := 1e-300
			for i := 0; i < n; i++ {
				colmax = math.Max(colmax, math.Abs(X.At(i, j)))
			}
			tol := 64 * nf * cond * ref.Eps * (bmax + ymax/colmax)
			if !(math.Abs(q[j]-beta[j]) <= tol) {
				return ev.Fail("coefficient %d = %.17g, QR solution %.17g (tol %.3g)", j, beta[j], q[j], tol)
			}
			ev.MaxErr("vs-qr", math.Abs(q[j]-beta[j])/tol)
		}
	}
	classes := []string{"least-squares", fmt.Sprintf("terms=%d", p)}
	if c.W != nil {
		classes = append(classes, "weighted")
	}
	return ev.OK(p >= 2 && n >= p+2, classes...)
})

// PolyCase: PolynomialRegression on data from a polynomial (+ optional noise).
type PolyCase struct {
	Xs     []float64 `json:"xs"`
	Coef   []float64 `json:"coef"`  // generating polynomial, degree <= Degree when Noise is nil
	Noise  []float64 `json:"noise"` // added to y; nil = exact polynomial data
	W      []float64 `json:"w,omitempty"`
	Degree int       `json:"degree"`
	Probe  []float64 `json:"probe"`
}

func polyBig(coef []float64, x float64) *big.Float {
	s := ref.BI(0)
	xp := ref.BI(1)
	for _, c := range coef {
		s = ref.Add(s, ref.Mul(ref.B(c), xp))
		xp = ref.Mul(xp, ref.B(x))
	}
	return s
}

// fConsistent checks that F evaluates the polynomial with the returned
// coefficients at every probe (and at the data's ends and middle).
func fConsistent(c *PolyCase, res fit.PolynomialRegressionResult) string {
	d := c.Degree
	probes := append([]float64(nil), c.Probe...)
	probes = append(probes, c.Xs[0], c.Xs[len(c.Xs)-1], c.Xs[len(c.Xs)/2], 0, 1, -1)
	for _, x := range probes {
		want := ref.F64(polyBig(res.Coefficients, x))
		// F may evaluate the same polynomial by any scheme - powers, Horner, or in a variable
		// shifted to a centre m inside the data (better conditioned there): the rounding error
		// of the latter is bounded by eps * sum |c_i| (|m|+|x-m|)^i, which is the usual
		// eps * sum |c_i| |x|^i for m = 0.
		xlo, xhi := c.Xs[0], c.Xs[0]
		for _, v := range c.Xs {
			xlo, xhi = math.Min(xlo, v), math.Max(xhi, v)
		}
		// Converting the coefficients between the two variables (once) costs another
		// eps * sum |c_i| (2|m|+|x|)^i, which covers both.
		R := math.Abs(x) + 2*math.Max(math.Abs(xlo), math.Abs(xhi))
		mag := 0.0
		xp := 1.0
		for _, v := range res.Coefficients {
			mag += math.Abs(v) * xp
			xp *= R
		}
		if got := res.F(x); !(math.Abs(got-want) <= 8*float64(d+1)*ref.Eps*mag+1e-300) {
			return fmt.Sprintf("F(%v) = %.17g, sum of Coefficients[i]*x^i = %.17g", x, got, want)
		}
	}
	return ""
}

var checkPoly = ev.Register("polynomial-regression", func(c *PolyCase) ev.Outcome {
	n, d := len(c.Xs), c.Degree
	if d < 0 || n < d+2 || (c.W != nil && len(c.W) != n) || (c.Noise != nil && len(c.Noise) != n) {
		return ev.Fail("harness error: shape")
	}
	ys := make([]float64, n)
	for i, x := range c.Xs {
		ys[i] = ref.F64(polyBig(c.Coef, x))
		if c.Noise != nil {
			ys[i] += c.Noise[i]
		}
	}
	fs := make([]func(float64) float64, d+1)
	for k := range fs {
		k := k
		fs[k] = func(x float64) float64 { return math.Pow(x, float64(k)) }
	}
	X := design(c.Xs, fs)
	cond := condNormal(X, c.W)
	xs, yy := append([]float64(nil), c.Xs...), append([]float64(nil), ys...)
	var w []float64
	if c.W != nil {
		w = append([]float64(nil), c.W...)
	}
	res := fit.PolynomialRegression(xs, yy, w, d)
	if !bitsEq(xs, c.Xs) || !bitsEq(yy, ys) || (c.W != nil && !bitsEq(w, c.W)) {
		return ev.Fail("PolynomialRegression modified its arguments")
	}
	if len(res.Coefficients) != d+1 {
		return ev.Fail("degree %d: %d coefficients", d, len(res.Coefficients))
	}
	if !(cond < condLimit) {
		// Outside "well-conditioned designs" nothing is claimed about the values of the
		// coefficients, but F and Coefficients still describe one polynomial.
		for _, v := range res.Coefficients {
			if math.IsNaN(v) || math.IsInf(v, 0) {
				return ev.OK(false, "discarded-ill-conditioned")
			}
		}
		if msg := fConsistent(c, res); msg != "" {
			return ev.Fail("%s (ill-conditioned design, cond %.3g: only the consistency of F and Coefficients is checked)", msg, cond)
		}
		return ev.OK(false, "ill-conditioned-F-vs-coefficients-only")
	}
	cmax := 1e-3
	for _, v := range res.Coefficients {
		cmax = math.Max(cmax, math.Abs(v))
	}
	for _, v := range c.Coef {
		cmax = math.Max(cmax, math.Abs(v))
	}
	nf := float64(n)
	ymaxP := 0.0
	for _, y := range ys {
		ymaxP = math.Max(ymaxP, math.Abs(y))
	}
	tolC := 64 * nf * cond * ref.Eps * (cmax + ymaxP)
	classes := []string{fmt.Sprintf("degree=%d", d)}
	if c.Noise == nil && len(c.Coef) <= d+1 {
		// reproduction of a polynomial of degree <= d
		for k := 0; k <= d; k++ {
			want := 0.0
			if k < len(c.Coef) {
				want = c.Coef[k]
			}
			if !(math.Abs(res.Coefficients[k]-want) <= tolC) {
				return ev.Fail("degree %d fit of exact polynomial data: coefficient of x^%d = %.17g, generating coefficient %.17g (tol %.3g, cond %.3g)", d, k, res.Coefficients[k], want, tolC, cond)
			}
			ev.MaxErr("reproduction", math.Abs(res.Coefficients[k]-want)/tolC)
		}
		classes = append(classes, "reproduction")
	}
	// agreement with LinearLeastSquares on the monomial basis
	terms := make([]func(xs, out []float64), d+1)
	for k := range terms {
		terms[k] = term(fs[k])
	}
	lls := fit.LinearLeastSquares(c.Xs, ys, c.W, terms...)
	for k := range lls {
		if !(math.Abs(lls[k]-res.Coefficients[k]) <= tolC) {
			return ev.Fail("coefficient %d = %.17g, LinearLeastSquares on the monomial basis gives %.17g", k, res.Coefficients[k], lls[k])
		}
	}
	// and with an independent QR solution (optimality for noisy data)
	if q := qrFit(X, ys, c.W); q != nil {
		for k := range q {
			if !(math.Abs(q[k]-res.Coefficients[k]) <= tolC) {
				return ev.Fail("coefficient of x^%d = %.17g, QR least-squares solution %.17g (tol %.3g)", k, res.Coefficients[k], q[k], tolC)
			}
		}
	}
	for k := 0; k+1 < len(res.Coefficients); k++ {
		if res.Coefficients[k] == 0 {
			later := false
			for _, v := range res.Coefficients[k+1:] {
				if v != 0 {
					later = true
				}
			}
			if later {
				classes = append(classes, "exact-zero-interior-coefficient")
				break
			}
		}
	}
	if msg := fConsistent(c, res); msg != "" {
		return ev.Fail("%s", msg)
	}
	return ev.OK(d >= 1 && n >= d+3, classes...)
})

// LoessCase: one LOESS smoother and its queries.
type LoessCase struct {
	Xs      []float64 `json:"xs"` // distinct
	Ys      []float64 `json:"ys"`
	Degree  int       `json:"degree"`
	Span    float64   `json:"span"`
	Queries []float64 `json:"queries"`
	Perm    []int     `json:"perm"`
	Bump    float64   `json:"bump"`
}

var checkLoess = ev.Register("loess", func(c *LoessCase) ev.Outcome {
	n := len(c.Xs)
	if n != len(c.Ys) || len(c.Perm) != n || c.Degree < 0 || !(c.Span > 0) {
		return ev.Fail("harness error: shape")
	}
	q := int(math.Ceil(c.Span * float64(n)))
	if q > n {
		q = n
	}
	if q < c.Degree+3 {
		return ev.Fail("harness error: window too small for the degree")
	}
	px, py := make([]float64, n), make([]float64, n)
	for i, j := range c.Perm {
		px[i], py[i] = c.Xs[j], c.Ys[j]
	}
	// the inputs are handed over with spare capacity (a sub-slice of a larger buffer, as in
	// xs, ys := buf[:n], buf[n:2n]): an "in place" copy that lands in the caller's memory shows
	// up as a change of ys or of the sentinel-filled spare region
	buf := make([]float64, 4*n+8)
	for i := range buf {
		buf[i] = -9.75e88
	}
	ax, ay := buf[:n:2*n], buf[2*n:3*n]
	if n%2 == 0 {
		ax, ay = buf[:n], buf[n:2*n] // flat layout: ys directly behind xs, inside xs' capacity
	}
	copy(ax, px)
	copy(ay, py)
	snapshot := append([]float64(nil), buf...)
	f := fit.LOESS(ax, ay, c.Degree, c.Span)
	// sorted input
	idx := make([]int, n)
	for i := range idx {
		idx[i] = i
	}
	sort.Slice(idx, func(a, b int) bool { return c.Xs[idx[a]] < c.Xs[idx[b]] })
	sx, sy := make([]float64, n), make([]float64, n)
	for i, j := range idx {
		sx[i], sy[i] = c.Xs[j], c.Ys[j]
	}
	sxArg, syArg := append([]float64(nil), sx...), append([]float64(nil), sy...)
	fSorted := fit.LOESS(sxArg, syArg, c.Degree, c.Span)
	for i := range sx {
		if math.Float64bits(sxArg[i]) != math.Float64bits(sx[i]) || math.Float64bits(syArg[i]) != math.Float64bits(sy[i]) {
			return ev.Fail("LOESS modified its (already sorted) inputs: xs %v -> %v, ys %v -> %v", sx, sxArg, sy, syArg)
		}
	}
	fs := make([]func(float64) float64, c.Degree+1)
	for k := range fs {
		k := k
		fs[k] = func(x float64) float64 { return math.Pow(x, float64(k)) }
	}
	nt := false
	classes := map[string]bool{}
	for _, x := range c.Queries {
		// the q nearest points
		order := make([]int, n)
		for i := range order {
			order[i] = i
		}
		sort.Slice(order, func(a, b int) bool { return math.Abs(sx[order[a]]-x) < math.Abs(sx[order[b]]-x) })
		if q < n {
			da, db := math.Abs(sx[order[q-1]]-x), math.Abs(sx[order[q]]-x)
			if db-da <= 1e-9*(da+db) {
				classes["window-tie-skipped"] = true
				continue // the window is not unique
			}
		}
		win := append([]int(nil), order[:q]...)
		sort.Ints(win)
		dmax := math.Abs(sx[order[q-1]] - x)
		wx, wy, ww := make([]float64, q), make([]float64, q), make([]float64, q)
		for i, j := range win {
			u := math.Abs(x-sx[j]) / dmax
			t := 1 - u*u*u
			wx[i], wy[i], ww[i] = sx[j], sy[j], t*t*t
		}
		// drop zero-weight points for the reference (they do not influence the fit)
		var rx, ry, rw []float64
		for i := range wx {
			if ww[i] > 0 {
				rx, ry, rw = append(rx, wx[i]), append(ry, wy[i]), append(rw, ww[i])
			}
		}
		if len(rx) < c.Degree+2 {
			continue
		}
		X := design(rx, fs)
		cond := condNormal(X, rw)
		if !(cond < condLimit) {
			classes["discarded-ill-conditioned"] = true
			continue
		}
		got := f(x)
		beta := qrFit(X, ry, rw)
		if beta == nil {
			continue
		}
		want := ref.F64(polyBig(beta, x))
		mag := 0.0
		xp := 1.0
		for _, v := range beta {
			mag += math.Abs(v) * xp
			xp *= math.Abs(x)
		}
		ymax := 0.0
		for _, y := range ry {
			ymax = math.Max(ymax, math.Abs(y))
		}
		tol := 64 * float64(q) * cond * ref.Eps * (mag + ymax)
		if !(math.Abs(got-want) <= tol) {
			return ev.Fail("LOESS(%v) = %.17g, tricube-weighted local degree-%d fit on the %d nearest points gives %.17g (tol %.3g, cond %.3g)", x, got, c.Degree, q, want, tol, cond)
		}
		ev.MaxErr("loess-vs-local-fit", math.Abs(got-want)/tol)
		// order independence
		if g2 := fSorted(x); math.Float64bits(g2) != math.Float64bits(got) {
			return ev.Fail("LOESS(%v) = %.17g on shuffled input but %.17g on sorted input", x, got, g2)
		}
		// locality: changing points outside the window must not change the value at all
		inWin := map[int]bool{}
		for _, j := range win {
			inWin[j] = true
		}
		y2 := append([]float64(nil), sy...)
		changed := 0
		for j := range y2 {
			if !inWin[j] {
				y2[j] += c.Bump * float64(1+j%3)
				changed++
			}
		}
		if changed > 0 {
			g3 := fit.LOESS(append([]float64(nil), sx...), y2, c.Degree, c.Span)(x)
			if math.Float64bits(g3) != math.Float64bits(got) {
				return ev.Fail("LOESS(%v) changes from %.17g to %.17g when only points outside its %d nearest are changed", x, got, g3, q)
			}
			classes["locality-checked"] = true
		}
		// (to keep the locality check from being vacuous: a positive-weight point inside the window does matter)
		y3 := append([]float64(nil), sy...)
		for i, j := range win {
			if ww[i] > 0.01 {
				y3[j] += c.Bump
				break
			}
		}
		if g4 := fit.LOESS(append([]float64(nil), sx...), y3, c.Degree, c.Span)(x); g4 != got {
			classes["inside-point-matters"] = true
		}
		nt = true
	}
	if !bitsEq(ax, px) || !bitsEq(ay, py) {
		return ev.Fail("LOESS modified its inputs")
	}
	if !bitsEq(buf, snapshot) {
		return ev.Fail("LOESS wrote into the spare capacity of its input slices")
	}
	cl := []string{fmt.Sprintf("loess-degree=%d", c.Degree)}
	for _, k := range []string{"window-tie-skipped", "discarded-ill-conditioned", "locality-checked", "inside-point-matters"} {
		if classes[k] {
			cl = append(cl, k)
		}
	}
	return ev.OK(nt, cl...)
})

// ---------------------------------------------------------------- generators

const rule = "LinearLeastSquares on rapid-generated designs (3..40 distinct jittered-grid x in [-2,2] or affinely rescaled, bases from " +
	"monomials / {1,sin,cos} / {1,x,exp}, optional positive weights): normal-equation residual in 400-bit arithmetic, no " +
	"coefficient perturbation lowers the weighted sum of squares, agreement with an independent QR solution; " +
	"PolynomialRegression degree 0..6: reproduction of polynomials of degree <= d, F = sum Coefficients[i] x^i, agreement with " +
	"LinearLeastSquares on monomials and with QR for noisy data; LOESS degree 0..2, span in (0,1] with window >= degree+3: equals " +
	"an independent tricube-weighted local fit (QR) on the ceil(span*n) nearest points, bit-identical on shuffled vs sorted " +
	"input, bit-identical when only points outside the window change (and an inside point does matter), inputs untouched. " +
	"Cases with cond(X^T W X) >= 1e10 are discarded and counted. Tolerances 64*n*cond*eps*scale. Non-trivial: degree>=1 and " +
	"n>=degree+3. Later additions: basis terms scaled by constants of their own, reordered (constant not first), tanh / x+1 / Legendre-like / rational terms; spans within an ulp of k/n."

func drawXs(t *rapid.T, n int) []float64 {
	xs := make([]float64, n)
	jit := rapid.Float64Range(0, 0.4).Draw(t, "jitter")
	for i := range xs {
		g := -2 + 4*(float64(i)+0.5)/float64(n)
		xs[i] = g + (4/float64(n))*jit*rapid.Float64Range(-1, 1).Draw(t, "j")
	}
	if rapid.IntRange(0, 3).Draw(t, "rescale") == 0 {
		a := gen.LogUniform(t, 0.1, 10, "scale")
		b := rapid.Float64Range(-3, 3).Draw(t, "shift")
		for i := range xs {
			xs[i] = a*xs[i] + b
		}
	}
	// strictly increasing by construction (jitter < half a cell)
	return xs
}

func drawWeights(t *rapid.T, n int) []float64 {
	if rapid.Bool().Draw(t, "weighted") {
		w := make([]float64, n)
		for i := range w {
			w[i] = rapid.Float64Range(0.1, 5).Draw(t, "w")
		}
		return w
	}
	return nil
}

func TestLeastSquares(t *testing.T) {
	ev.Rule(rule)
	ev.Rapid(t, "c15-ls", 6000, 100000, func(rt *rapid.T) {
		basis := rapid.SampledFrom([][]string{{"1", "x"}, {"1", "x", "x2"}, {"1", "sin", "cos"}, {"1", "x", "exp"}, {"1", "x", "x2", "x3"}, {"x", "sin"}, {"1"}, {"1", "x", "x2", "x3", "x4"}}).Draw(rt, "basis")
		basis = append([]string(nil), basis...)
		switch rapid.IntRange(0, 3).Draw(rt, "basisVariant") {
		case 1:
			// every term scaled by a constant of its own (a constant term that is not the
			// function 1, a basis that is not normalised)
			for j := range basis {
				if k := rapid.SampledFrom([]string{"2.5", "-1", "0.5", "4", "-0.25", "1"}).Draw(rt, "termScale"); k != "1" {
					basis[j] = k + "*" + basis[j]
				}
			}
		case 2:
			// other functions, and the terms in another order (the constant not first)
			basis = append([]string(nil), rapid.SampledFrom([][]string{{"x", "1"}, {"tanh", "1", "x2"}, {"x+1", "x2"}, {"1", "x", "p2"}, {"rat", "1", "x"},
				{"sin", "3*1"}, {"2*1", "x", "sin"}, {"x", "x2", "0.5*1"}, {"p2", "x", "1", "x3"}, {"cos", "rat"}}).Draw(rt, "basis2")...)
		}
		n := rapid.IntRange(len(basis)+1, 40).Draw(rt, "n")
		c := &LSCase{Xs: drawXs(rt, n), Basis: basis, W: drawWeights(rt, n)}
		for range c.Xs {
			c.Ys = append(c.Ys, rapid.Float64Range(-10, 10).Draw(rt, "y"))
		}
		checkLS.Run(rt, c)
	})
}

func TestPolynomial(t *testing.T) {
	ev.Rule(rule)
	ev.Rapid(t, "c15-poly", 8000, 120000, func(rt *rapid.T) {
		d := rapid.SampledFrom([]int{3, 4, 2, 1, 5, 6, 0}).Draw(rt, "degree")
		n := rapid.IntRange(d+2, 40).Draw(rt, "n")
		c := &PolyCase{Xs: drawXs(rt, n), Degree: d, W: drawWeights(rt, n)}
		gd := rapid.IntRange(0, d).Draw(rt, "genDegree")
		symmetric := rapid.IntRange(0, 3).Draw(rt, "symmetric") == 0
		if !symmetric && rapid.IntRange(0, 4).Draw(rt, "offcentre") == 0 {
			// a narrow design far from the origin relative to its width (all x of one sign,
			// max|x| < 3 min|x|): where an implementation would recentre; usually too
			// ill-conditioned in the monomial basis for the value checks, but F and
			// Coefficients must still agree
			centre := gen.Sign(rt, "offsign") * rapid.Float64Range(1, 3).Draw(rt, "offcentreAt")
			half := math.Abs(centre) * rapid.Float64Range(0.05, 0.45).Draw(rt, "offhalf")
			for i := range c.Xs {
				c.Xs[i] = centre + half*(2*(float64(i)+0.5)/float64(n)-1)
			}
			gd = d
		}
		if symmetric {
			// abscissae symmetric about 0 on a dyadic grid, no weights, and a sparse even or odd
			// polynomial with small integer coefficients: the odd (or even) moments cancel exactly and
			// the fit returns exact zeros for the absent terms
			c.W = nil
			c.Xs = c.Xs[:0]
			half := n / 2
			for i := half; i >= 1; i-- {
				c.Xs = append(c.Xs, -float64(i)/4)
			}
			if n%2 == 1 {
				c.Xs = append(c.Xs, 0)
			}
			for i := 1; i <= half; i++ {
				c.Xs = append(c.Xs, float64(i)/4)
			}
		}
		parity := rapid.IntRange(0, 1).Draw(rt, "parity")
		for k := 0; k <= gd; k++ {
			v := rapid.Float64Range(-5, 5).Draw(rt, "coef")
			if symmetric {
				v = float64(rapid.IntRange(-3, 3).Draw(rt, "icoef"))
				if k%2 != parity {
					v = 0
				}
			} else if rapid.IntRange(0, 5).Draw(rt, "zeroCoef") == 0 {
				v = 0
			}
			c.Coef = append(c.Coef, v)
		}
		if !symmetric && rapid.IntRange(0, 2).Draw(rt, "noisy") == 0 {
			c.Noise = make([]float64, n)
			for i := range c.Noise {
				c.Noise[i] = rapid.Float64Range(-1, 1).Draw(rt, "noise")
			}
		}
		for i := 0; i < 4; i++ {
			c.Probe = append(c.Probe, rapid.Float64Range(-3, 3).Draw(rt, "probe"))
		}
		checkPoly.Run(rt, c)
	})
}

func TestLOESS(t *testing.T) {
	ev.Rule(rule)
	ev.Rapid(t, "c15-loess", 4000, 64000, func(rt *rapid.T) {
		d := rapid.IntRange(0, 2).Draw(rt, "degree")
		n := rapid.IntRange(d+3, 40).Draw(rt, "n")
		c := &LoessCase{Xs: drawXs(rt, n), Degree: d, Bump: rapid.Float64Range(0.5, 5).Draw(rt, "bump")}
		qmin := d + 3
		q := rapid.IntRange(qmin, n).Draw(rt, "q")
		c.Span = (float64(q) - 0.5) / float64(n) // ceil(span*n) == q
		switch rapid.IntRange(0, 4).Draw(rt, "spanKind") {
		case 4:
			// span a hair above k/n (by an ulp .. 1e-9): ceil(span*n) is k+1, one more point than
			// at k/n itself; and a hair below (k points)
			k := q - 1
			base := float64(k) / float64(n)
			up := rapid.Bool().Draw(rt, "spanAbove")
			for _, cand := range []float64{base * (1 + gen.LogUniform(rt, 1e-15, 1e-9, "spanOff")), math.Nextafter(base, 2)} {
				if !up {
					cand = 2*base - cand
				}
				if qq := int(math.Ceil(cand * float64(n))); qq >= qmin && qq <= n && cand > 0 {
					c.Span = cand
					if rapid.Bool().Draw(rt, "spanUlp") {
						break
					}
				}
			}
		case 1:
			// span*n exactly (or within rounding of) an integer: ceil must not add a point
			if q-1 >= qmin {
				c.Span = float64(q-1) / float64(n)
			} else {
				c.Span = float64(q) / float64(n)
			}
		case 2:
			// round fractions, which make span*n integral for suitable n
			sp := rapid.SampledFrom([]float64{0.5, 0.25, 0.75, 0.2, 0.4, 0.6, 0.8, 1}).Draw(rt, "roundSpan")
			if int(math.Ceil(sp*float64(n))) >= qmin {
				c.Span = sp
			}
		}
		// polynomial data of degree <= d half of the time (reproduction), arbitrary otherwise
		if rapid.Bool().Draw(rt, "polyData") {
			var coef []float64
			for k := 0; k <= d; k++ {
				coef = append(coef, rapid.Float64Range(-3, 3).Draw(rt, "coef"))
			}
			for _, x := range c.Xs {
				c.Ys = append(c.Ys, ref.F64(polyBig(coef, x)))
			}
		} else {
			for range c.Xs {
				c.Ys = append(c.Ys, rapid.Float64Range(-10, 10).Draw(rt, "y"))
			}
		}
		c.Perm = gen.Perm(rt, n, "perm")
		lo, hi := c.Xs[0], c.Xs[n-1]
		for i := 0; i < 5; i++ {
			switch rapid.IntRange(0, 3).Draw(rt, "qkind") {
			case 0:
				c.Queries = append(c.Queries, c.Xs[rapid.IntRange(0, n-1).Draw(rt, "at")])
			case 1:
				c.Queries = append(c.Queries, rapid.SampledFrom([]float64{lo, hi}).Draw(rt, "end"))
			default:
				c.Queries = append(c.Queries, lo+(hi-lo)*rapid.Float64Range(0, 1).Draw(rt, "u"))
			}
		}
		checkLoess.Run(rt, c)
	})
}
