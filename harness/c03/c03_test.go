// Package c03 decides property C03: laws of MannWhitneyUTest at every size and
// on both sides of the exact/approximate switch-over.
package c03

import (
	"fmt"
	"math"
	"sort"
	"testing"

	"github.com/aclements/go-moremath/stats"
	"pgregory.net/rapid"

	"verifharness/internal/ev"
	"verifharness/internal/gen"
	"verifharness/internal/ref"
)

func TestMain(m *testing.M) { ev.Main(m, "C03") }

func TestReplay(t *testing.T) { ev.Replay(t) }

// Case: the samples are given as level indices into two strictly increasing
// value tables (Values and its image Mapped under a strictly increasing map),
// plus the permutations to apply and the configuration of the two limits.
type Case struct {
	L1         []int     `json:"l1"`
	L2         []int     `json:"l2"`
	Values     []float64 `json:"values"`
	Mapped     []float64 `json:"mapped"`
	Perm1      []int     `json:"perm1"`
	Perm2      []int     `json:"perm2"`
	ExactLimit int       `json:"exact_limit"`
	TiesLimit  int       `json:"ties_limit"`
	// BeforeL1/BeforeL2, if set, are another pair of samples (levels into Values) on which the
	// test is evaluated immediately before every evaluation of the case - a "sibling" with the
	// same sizes, the same U and the same tie counts in another order, where possible: the
	// result for the case must not depend on what was computed just before.
	BeforeL1 []int `json:"before_l1,omitempty"`
	BeforeL2 []int `json:"before_l2,omitempty"`
}

const SigLegacy = "mwu-two-sided-ties-legacy"

func pick(levels []int, vals []float64) []float64 {
	out := make([]float64, len(levels))
	for i, l := range levels {
		out[i] = vals[l]
	}
	return out
}

func permute(xs []float64, p []int) []float64 {
	out := make([]float64, len(xs))
	for i, j := range p {
		out[i] = xs[j]
	}
	return out
}

func bitsEqual(a, b []float64) bool {
	if len(a) != len(b) {
		return false
	}
	for i := range a {
		if math.Float64bits(a[i]) != math.Float64bits(b[i]) {
			return false
		}
	}
	return true
}

type call struct {
	res *stats.MannWhitneyUTestResult
	err error
}

// mwu calls the library with the limits of the case installed and checks that
// the arguments are left bit-identical.
func mwu(c *Case, x1, x2 []float64, alt int) (call, error) {
	oe, ot := stats.MannWhitneyExactLimit, stats.MannWhitneyTiesExactLimit
	stats.MannWhitneyExactLimit, stats.MannWhitneyTiesExactLimit = c.ExactLimit, c.TiesLimit
	defer func() { stats.MannWhitneyExactLimit, stats.MannWhitneyTiesExactLimit = oe, ot }()
	if c.BeforeL1 != nil {
		stats.MannWhitneyUTest(pick(c.BeforeL1, c.Values), pick(c.BeforeL2, c.Values), stats.LocationHypothesis(alt))
	}
	// The two samples are handed over as two windows of ONE backing array, a small gap apart
	// (two stretches of one series), with sentinel-filled spare capacity behind: x1's capacity
	// runs over the gap and x2, so an append-based "copy" of x1 lands in x2; nothing in the
	// whole array may change.
	const sentinel = -7.25e77
	n1, n2 := len(x1), len(x2)
	gap := 1
	buf := make([]float64, n1+gap+n2+2*(n1+n2)+4)
	for i := range buf {
		buf[i] = sentinel
	}
	copy(buf, x1)
	copy(buf[n1+gap:], x2)
	before := append([]float64(nil), buf...)
	a1, a2 := buf[:n1], buf[n1+gap:n1+gap+n2]
	r, err := stats.MannWhitneyUTest(a1, a2, stats.LocationHypothesis(alt))
	if !bitsEqual(buf, before) {
		return call{}, fmt.Errorf("arguments (or the memory behind them) modified by the call (alt=%d): x1 %v -> %v, x2 %v -> %v, whole backing array %v -> %v", alt, x1, a1, x2, a2, before, buf)
	}
	// When one sample happens to be a prefix of the other (values equal one for one), hand them
	// over once more as data[:k] and data - two slices with the SAME first element and different
	// lengths - and require the same answer.
	short, long, swapped := x1, x2, false
	if len(short) > len(long) {
		short, long, swapped = x2, x1, true
	}
	if len(short) > 0 && len(short) < len(long) && bitsEqual(short, long[:len(short)]) {
		data := append(make([]float64, 0, 2*len(long)+3), long...)
		keep := append([]float64(nil), data...)
		a, b := data[:len(short)], data
		if swapped {
			a, b = b, a
		}
		r2, err2 := stats.MannWhitneyUTest(a, b, stats.LocationHypothesis(alt))
		if !bitsEqual(data, keep) {
			return call{}, fmt.Errorf("arguments modified by the call on a prefix and its whole slice (alt=%d)", alt)
		}
		if (err2 == nil) != (err == nil) || (err == nil && (r2.U != r.U || !samePval(r2.P, r.P) || r2.N1 != r.N1 || r2.N2 != r.N2)) {
			return call{}, fmt.Errorf("alt=%d: the call on data[:%d] and data[:%d] (same first element) gives %+v, %v; on separate slices %+v, %v", alt, len(a), len(b), r2, err2, r, err)
		}
	}
	return call{r, err}, nil
}

func phi(z float64) float64      { return 0.5 * math.Erfc(-z/math.Sqrt2) }
func phiUpper(z float64) float64 { return 0.5 * math.Erfc(z/math.Sqrt2) }

var checkLaws = ev.Register("mwu-laws", func(c *Case) ev.Outcome {
	if len(c.Values) != len(c.Mapped) || len(c.Perm1) != len(c.L1) || len(c.Perm2) != len(c.L2) {
		return ev.Fail("harness error: inconsistent case")
	}
	x1, x2 := pick(c.L1, c.Values), pick(c.L2, c.Values)
	n1, n2 := len(x1), len(x2)
	N := n1 + n2

	// tie structure of the pooled data
	pooled := append(append([]float64(nil), x1...), x2...)
	sort.Float64s(pooled)
	var T []int
	ties := false
	for i := 0; i < len(pooled); {
		j := i
		for j < len(pooled) && pooled[j] == pooled[i] {
			j++
		}
		T = append(T, j-i)
		if j-i > 1 {
			ties = true
		}
		i = j
	}
	var wantErr error
	switch {
	case n1 == 0 || n2 == 0:
		wantErr = stats.ErrSampleSize
	case len(T) == 1:
		wantErr = stats.ErrSamplesEqual
	}
	exactMode := (!ties && n1 <= c.ExactLimit && n2 <= c.ExactLimit) || (ties && n1 <= c.TiesLimit && n2 <= c.TiesLimit)

	classes := []string{}
	if exactMode {
		classes = append(classes, "exact")
	} else {
		classes = append(classes, "approx")
	}
	if ties {
		classes = append(classes, "ties")
	} else {
		classes = append(classes, "no-ties")
	}
	posZero, negZero := false, false
	for _, v := range pooled {
		if v == 0 {
			if math.Signbit(v) {
				negZero = true
			} else {
				posZero = true
			}
		}
	}
	if posZero && negZero {
		classes = append(classes, "zeros-of-both-signs")
	}
	if c.ExactLimit == 50 && c.TiesLimit == 25 {
		classes = append(classes, "limits-default")
	} else {
		classes = append(classes, "limits-changed")
	}
	if wantErr != nil {
		classes = append(classes, "error-case")
	}
	for _, t := range T {
		if t >= 256 {
			classes = append(classes, "tie-group>=256")
			break
		}
	}

	w := ref.PairCountU2(x1, x2)
	var uref *ref.UCounts
	if wantErr == nil && exactMode {
		if N > 130 {
			return ev.Fail("harness error: exact mode beyond the reference's range")
		}
		for _, t := range T {
			if t > 60 {
				return ev.Fail("harness error: tie group beyond the reference's range")
			}
		}
		uref = ref.UExact(n1, n2, T)
	}
	knownHit := false
	var ps [3]float64 // P for alt -1,0,1
	for alt := -1; alt <= 1; alt++ {
		base, aerr := mwu(c, x1, x2, alt)
		if aerr != nil {
			return ev.Outcome{Err: aerr}
		}
		if base.err != wantErr {
			return ev.Fail("alt=%d: error %v, want %v (n1=%d n2=%d distinct values=%d)", alt, base.err, wantErr, n1, n2, len(T))
		}
		if wantErr != nil {
			if base.res != nil {
				return ev.Fail("alt=%d: non-nil result together with error %v", alt, base.err)
			}
			continue
		}
		r := base.res
		if r == nil {
			return ev.Fail("alt=%d: nil result, nil error", alt)
		}
		if r.N1 != n1 || r.N2 != n2 || int(r.AltHypothesis) != alt {
			return ev.Fail("alt=%d: N1,N2,Alt = %d,%d,%d", alt, r.N1, r.N2, r.AltHypothesis)
		}
		if r.U != float64(w)/2 {
			return ev.Fail("alt=%d: U=%v, pair count %v", alt, r.U, float64(w)/2)
		}
		// value of P by the method the statement prescribes
		var want float64
		tol := 1e-12
		isLegacy := false
		if exactMode {
			tol = 1e-9
			le, ge := uref.PLE(w), uref.PGE(w)
			switch alt {
			case -1:
				want = le
			case 1:
				want = ge
			default:
				want = math.Min(1, 2*math.Min(le, ge))
				if ties && !(math.Abs(r.P-want) <= tol) {
					var leg float64
					if 2*w == 2*n1*n2 {
						leg = 1
					} else {
						leg = 2 * uref.PLE(minInt(w, 2*n1*n2-w))
					}
					if math.Abs(r.P-leg) <= tol {
						isLegacy = true
					}
				}
			}
		} else {
			mu := float64(n1*n2) / 2
			tsum := 0.0
			for _, t := range T {
				tf := float64(t)
				tsum += tf*tf*tf - tf
			}
			Nf := float64(N)
			sigma := math.Sqrt(float64(n1*n2) / 12 * ((Nf + 1) - tsum/(Nf*(Nf-1))))
			U := float64(w) / 2
			switch alt {
			case -1:
				want = phi((U + 0.5 - mu) / sigma)
			case 1:
				want = phiUpper((U - 0.5 - mu) / sigma)
			default:
				want = 2 * phiUpper(math.Max(0, math.Abs(U-mu)-0.5)/sigma)
			}
		}
		if isLegacy {
			knownHit = true
		} else {
			if !(math.Abs(r.P-want) <= tol) {
				return ev.Fail("alt=%d (%s): P=%.15g, want %.15g; U=%v n1=%d n2=%d T=%v", alt, classes[0], r.P, want, r.U, n1, n2, T)
			}
			ev.MaxErr("P-"+classes[0], math.Abs(r.P-want)/tol)
			// The exact tail is a floating-point sum, so 2*CDF can land a few ulp above 1
			// (x1=[0 3 4], x2=[1 2 5] gives 1.0000000000000002): the range law is checked
			// with the same slack as the approximate-method comparison.
			if !(r.P >= 0 && r.P <= 1+1e-12) {
				return ev.Fail("alt=%d: P=%v outside [0,1]", alt, r.P)
			}
		}
		ps[alt+1] = r.P

		// reordering either sample: bit-identical
		pr, aerr := mwu(c, permute(x1, c.Perm1), permute(x2, c.Perm2), alt)
		if aerr != nil {
			return ev.Outcome{Err: aerr}
		}
		if pr.err != nil || pr.res.U != r.U || !samePval(pr.res.P, r.P) {
			return ev.Fail("alt=%d: result changes under reordering: U %v -> %v, P %v -> %v (err %v)", alt, r.U, pr.res.U, r.P, pr.res.P, pr.err)
		}
		// one strictly increasing map applied to all values: bit-identical
		mr, aerr := mwu(c, pick(c.L1, c.Mapped), pick(c.L2, c.Mapped), alt)
		if aerr != nil {
			return ev.Outcome{Err: aerr}
		}
		if mr.err != nil || mr.res.U != r.U || !samePval(mr.res.P, r.P) {
			return ev.Fail("alt=%d: result changes under a strictly increasing map: U %v -> %v, P %v -> %v (err %v)", alt, r.U, mr.res.U, r.P, mr.res.P, mr.err)
		}
	}
	if wantErr == nil {
		// swapping the samples
		tol := 1e-12
		if exactMode {
			tol = 1e-9
		}
		for alt := -1; alt <= 1; alt++ {
			sr, aerr := mwu(c, x2, x1, alt)
			if aerr != nil {
				return ev.Outcome{Err: aerr}
			}
			if sr.err != nil {
				return ev.Fail("swapped call: error %v", sr.err)
			}
			if sr.res.U != float64(2*n1*n2-w)/2 {
				return ev.Fail("swapped call: U=%v, want N1*N2-U=%v", sr.res.U, float64(2*n1*n2-w)/2)
			}
			if sr.res.N1 != n2 || sr.res.N2 != n1 {
				return ev.Fail("swapped call: N1,N2 = %d,%d", sr.res.N1, sr.res.N2)
			}
			want := ps[1-alt] // less <-> greater, differs <-> differs
			if alt == 0 && exactMode && ties {
				// two-sided + ties + exact: the swapped value is judged on its own. The null
				// distribution for (n2,n1,T) is the mirror image of the one for (n1,n2,T):
				// Pr'[2U'<=v] = Pr[2U >= wmax-v].
				wmax := 2 * n1 * n2
				exactP := math.Min(1, 2*math.Min(uref.PGE(w), uref.PLE(w)))
				if math.Abs(sr.res.P-exactP) <= tol {
					continue
				}
				var leg float64
				if 2*w == wmax {
					leg = 1
				} else {
					leg = 2 * uref.PGE(wmax-minInt(w, wmax-w))
				}
				if math.Abs(sr.res.P-leg) <= tol {
					knownHit = true
					continue
				}
				return ev.Fail("swapped two-sided P=%.15g is neither the exact value %.15g nor the known legacy value %.15g", sr.res.P, exactP, leg)
			}
			if !(math.Abs(sr.res.P-want) <= tol) {
				return ev.Fail("swap law: alt=%d on (x2,x1) gives P=%.15g, alt=%d on (x1,x2) gave %.15g", alt, sr.res.P, -alt, want)
			}
		}
	}
	out := ev.Outcome{NT: wantErr == nil, Classes: classes}
	if knownHit {
		out.Known = SigLegacy
		out.Classes = append(out.Classes, "known-legacy")
	}
	return out
})

// samePval: "unchanged" for a p-value means equal up to the last few bits (an
// implementation is free to accumulate in a different order), not bit-identity.
func samePval(a, b float64) bool {
	return a == b || math.Abs(a-b) <= 16*ref.Eps*math.Max(math.Abs(a), math.Abs(b))
}

func minInt(a, b int) int {
	if a < b {
		return a
	}
	return b
}

const rule = "MannWhitneyUTest laws on generated pairs of samples (sizes 0..60, 10% up to 400; values drawn from k levels, " +
	"k from 1 (all equal) to 3N; both limits drawn from {default,0,5,30,1000}, saved and restored around every call): " +
	"errors exactly as stated, N1,N2, U = pair count, 0<=P<=1, arguments bit-identical afterwards, bit-identical results under " +
	"permutation and under a second strictly increasing assignment of the levels, swap law, P vs the stated normal approximation " +
	"(independent erfc evaluation, 1e-12) above the limits and vs the exact 128-bit reference (1e-9) below them. Non-trivial: " +
	"both samples non-empty and not all equal; distinct = different canonical JSON of the case. Later additions: samples as windows of one backing array, prefix pairs, sibling histories, two neighbouring values turned into -0 and +0."

func drawCase(t *rapid.T) *Case {
	limits := []int{50, 25, 0, 5, 30, 1000}
	c := &Case{}
	if rapid.IntRange(0, 2).Draw(t, "defaultLimits") == 0 {
		c.ExactLimit, c.TiesLimit = 50, 25
	} else {
		c.ExactLimit = rapid.SampledFrom(limits).Draw(t, "exactLimit")
		c.TiesLimit = rapid.SampledFrom(limits).Draw(t, "tiesLimit")
	}
	maxSize := 60
	if c.TiesLimit >= 50 {
		maxSize = 30 // exact method with ties up to the limit: keeps every tie group within the reference's range (60)
	} else if c.ExactLimit != 1000 && rapid.IntRange(0, 5).Draw(t, "big") == 0 {
		maxSize = 400
	}
	var n1, n2 int
	switch rapid.IntRange(0, 9).Draw(t, "sizeKind") {
	case 0:
		n1, n2 = rapid.IntRange(0, 3).Draw(t, "n1"), rapid.IntRange(0, 3).Draw(t, "n2")
	case 1, 2:
		// around the two default limits
		n1 = rapid.SampledFrom([]int{24, 25, 26, 49, 50, 51}).Draw(t, "n1")
		n2 = rapid.SampledFrom([]int{1, 5, 24, 25, 26, 49, 50, 51}).Draw(t, "n2")
		if n1 > maxSize {
			n1 = maxSize
		}
		if n2 > maxSize {
			n2 = maxSize
		}
	case 3:
		// a very large tie group inside one sample (hundreds of equal values)
		if maxSize >= 400 {
			n1, n2 = rapid.IntRange(250, 400).Draw(t, "n1big"), rapid.IntRange(1, 60).Draw(t, "n2small")
			if rapid.Bool().Draw(t, "flipBig") {
				n1, n2 = n2, n1
			}
		} else {
			n1, n2 = rapid.IntRange(0, maxSize).Draw(t, "n1"), rapid.IntRange(0, maxSize).Draw(t, "n2")
		}
	default:
		n1, n2 = rapid.IntRange(0, maxSize).Draw(t, "n1"), rapid.IntRange(0, maxSize).Draw(t, "n2")
	}
	N := n1 + n2
	k := 1
	switch rapid.IntRange(0, 5).Draw(t, "levelKind") {
	case 0:
		k = rapid.IntRange(1, 3).Draw(t, "k")
	case 1, 2:
		k = rapid.IntRange(1, maxOf(1, N)).Draw(t, "k")
	default:
		k = 3*N + 1 // mostly untied
	}
	if (n1 >= 250 || n2 >= 250) && rapid.IntRange(0, 2).Draw(t, "fewLevels") != 0 {
		k = rapid.IntRange(2, 3).Draw(t, "kfew")
	}
	untiedExact := false
	if rapid.IntRange(0, 4).Draw(t, "forceUntied") == 0 && N > 0 {
		// a guaranteed tie-free pair: distinct levels dealt by a permutation
		untiedExact = true
		k = N
	}
	c.Values = gen.Increasing(t, k, rapid.IntRange(0, 4).Draw(t, "valStyle"), "values")
	c.Mapped = gen.Increasing(t, k, rapid.IntRange(0, 4).Draw(t, "mapStyle"), "mapped")
	if untiedExact {
		p := gen.Perm(t, N, "deal")
		c.L1 = append([]int{}, p[:n1]...)
		c.L2 = append([]int{}, p[n1:]...)
	} else if (n1 >= 250 || n2 >= 250) && rapid.IntRange(0, 2).Draw(t, "dominant") != 0 {
		// one value dominates: tie groups of several hundred equal values inside one sample
		dom := rapid.IntRange(0, k-1).Draw(t, "domLevel")
		lvl := func(label string) int {
			if rapid.IntRange(0, 9).Draw(t, label+".other") == 0 {
				return rapid.IntRange(0, k-1).Draw(t, label)
			}
			return dom
		}
		for i := 0; i < n1; i++ {
			c.L1 = append(c.L1, lvl("l1"))
		}
		for i := 0; i < n2; i++ {
			c.L2 = append(c.L2, lvl("l2"))
		}
		if c.L1 == nil {
			c.L1 = []int{}
		}
		if c.L2 == nil {
			c.L2 = []int{}
		}
	} else {
		c.L1 = rapid.SliceOfN(rapid.IntRange(0, k-1), n1, n1).Draw(t, "l1")
		c.L2 = rapid.SliceOfN(rapid.IntRange(0, k-1), n2, n2).Draw(t, "l2")
	}
	c.Perm1 = gen.Perm(t, n1, "perm1")
	c.Perm2 = gen.Perm(t, n2, "perm2")
	signedZeros(t, c)
	return c
}

// signedZeros turns, in a quarter of the cases, two neighbouring values that occur in the data
// into -0 and +0: equal as numbers (one tie group, half a pair each), different as bit patterns,
// and in no fixed order after a sort.
func signedZeros(t *rapid.T, c *Case) {
	used := map[int]bool{}
	for _, l := range c.L1 {
		used[l] = true
	}
	for _, l := range c.L2 {
		used[l] = true
	}
	var lv []int
	for l := range c.Values {
		if used[l] {
			lv = append(lv, l)
		}
	}
	if len(lv) < 2 || rapid.IntRange(0, 3).Draw(t, "signedZeros") != 0 {
		return
	}
	i := rapid.IntRange(0, len(lv)-2).Draw(t, "zeroAt")
	if v := gen.SignedZeros(c.Values, lv[i], lv[i+1]); v != nil {
		c.Values = v
		gen.FlattenEqual(c.Values, c.Mapped)
	}
}

func maxOf(a, b int) int {
	if a > b {
		return a
	}
	return b
}

func TestRandom(t *testing.T) {
	ev.Rule(rule)
	ev.Rapid(t, "c03-random", 2500, 160000, func(rt *rapid.T) {
		c := drawCase(rt)
		if rapid.IntRange(0, 5).Draw(rt, "prefix") == 0 && len(c.L1) > 0 && len(c.L2) > 0 {
			// one sample is a prefix of the other (e.g. the first k observations against all)
			a, b := c.L1, c.L2
			if len(a) > len(b) {
				a, b = b, a
			}
			if len(a) == len(b) && len(a) > 1 {
				a = a[:len(a)-1]
			}
			copy(a, b[:len(a)])
			if len(c.L1) <= len(c.L2) {
				c.L1, c.L2 = a, b
			} else {
				c.L1, c.L2 = b, a
			}
			c.Perm1, c.Perm2 = gen.Perm(rt, len(c.L1), "pp1"), gen.Perm(rt, len(c.L2), "pp2")
		}
		checkLaws.Run(rt, c)
	})
}

// TestSiblingHistory: small tied pairs, each evaluated right after a sibling pair - the same
// data with the distinct values relabelled by a permutation chosen (by search) so that the sizes,
// U and the multiset of tie counts agree while the order of the tie counts differs.
func TestSiblingHistory(t *testing.T) {
	ev.Rule(rule)
	ev.Rapid(t, "c03-siblings", 1200, 40000, func(rt *rapid.T) {
		k := rapid.IntRange(2, 5).Draw(rt, "levels")
		n1, n2 := rapid.IntRange(1, 7).Draw(rt, "n1"), rapid.IntRange(1, 7).Draw(rt, "n2")
		c := &Case{ExactLimit: 50, TiesLimit: 25}
		for i := 0; i < k; i++ {
			c.Values = append(c.Values, float64(i))
			c.Mapped = append(c.Mapped, float64(3*i)+0.5)
		}
		for i := 0; i < n1; i++ {
			c.L1 = append(c.L1, rapid.IntRange(0, k-1).Draw(rt, "l1"))
		}
		for i := 0; i < n2; i++ {
			c.L2 = append(c.L2, rapid.IntRange(0, k-1).Draw(rt, "l2"))
		}
		c.Perm1, c.Perm2 = gen.Perm(rt, n1, "p1"), gen.Perm(rt, n2, "p2")
		// search the relabellings of the levels for a sibling
		u0 := ref.PairCountU2(pick(c.L1, c.Values), pick(c.L2, c.Values))
		perm := make([]int, k)
		for i := range perm {
			perm[i] = i
		}
		apply := func(ls []int) []int {
			out := make([]int, len(ls))
			for i, l := range ls {
				out[i] = perm[l]
			}
			return out
		}
		var bestL1, bestL2 []int
		var rec func(i int)
		rec = func(i int) {
			if bestL1 != nil {
				return
			}
			if i == k {
				b1, b2 := apply(c.L1), apply(c.L2)
				if fmt.Sprint(b1, b2) != fmt.Sprint(c.L1, c.L2) && ref.PairCountU2(pick(b1, c.Values), pick(b2, c.Values)) == u0 {
					bestL1, bestL2 = b1, b2
				}
				return
			}
			for j := i; j < k; j++ {
				perm[i], perm[j] = perm[j], perm[i]
				rec(i + 1)
				perm[i], perm[j] = perm[j], perm[i]
			}
		}
		rec(0)
		if bestL1 == nil { // no relabelling keeps U: any other pair of the same sizes will do
			for i := range perm {
				perm[i] = k - 1 - i
			}
			bestL1, bestL2 = apply(c.L1), apply(c.L2)
		}
		c.BeforeL1, c.BeforeL2 = bestL1, bestL2
		checkLaws.Run(rt, c)
	})
}
