// Package c18 decides property C18: graph traversals, SCCs, subgraphs and Dot
// output agree with their definitions on any graph.
package c18

import (
	"encoding/hex"
	"encoding/json"
	"fmt"
	"math"
	"sort"
	"strconv"
	"strings"
	"testing"
	"unicode/utf8"

	"github.com/aclements/go-moremath/graph"
	"github.com/aclements/go-moremath/graph/graphalg"
	"github.com/aclements/go-moremath/graph/graphout"
	"pgregory.net/rapid"

	"verifharness/internal/ev"
	"verifharness/internal/gen"
)

func TestMain(m *testing.M) { ev.Main(m, "C18") }

func TestReplay(t *testing.T) { ev.Replay(t) }

// ---------------------------------------------------------------- core algorithms on one graph

// coreCheck runs every algorithm on adj (and root) and compares with the
// definitions. weights may be nil.
func coreCheck(adj [][]int, root int, weights [][]float64, heavy bool) error {
	n := len(adj)
	orig := copyAdj(adj)
	g := graph.IntGraph(adj)

	// traversals
	wantPre, wantPost := dfsOrders(adj, root)
	if got := graphalg.PreOrder(g, root); !sameInts(got, wantPre) {
		return fmt.Errorf("PreOrder(root %d) = %v, depth-first pre-order is %v", root, trunc(got), trunc(wantPre))
	}
	post := graphalg.PostOrder(g, root)
	if !sameInts(post, wantPost) {
		return fmt.Errorf("PostOrder(root %d) = %v, depth-first post-order is %v", root, trunc(post), trunc(wantPost))
	}
	rev := graphalg.Reverse(post)
	if len(rev) != len(wantPost) || (len(rev) > 0 && &rev[0] != &post[0]) {
		return fmt.Errorf("Reverse did not return its argument")
	}
	for i := range rev {
		if rev[i] != wantPost[len(wantPost)-1-i] {
			return fmt.Errorf("Reverse(%v) = %v", trunc(wantPost), trunc(rev))
		}
	}
	// Euler tour
	var enters, exits, stack []int
	nestErr := ""
	e := graphalg.Euler{
		Enter: func(v int) { enters = append(enters, v); stack = append(stack, v) },
		Exit: func(v int) {
			exits = append(exits, v)
			if len(stack) == 0 || stack[len(stack)-1] != v {
				nestErr = fmt.Sprintf("Exit(%d) does not match the innermost open Enter", v)
			} else {
				stack = stack[:len(stack)-1]
			}
		},
	}
	e.Visit(g, root)
	if nestErr != "" || len(stack) != 0 {
		return fmt.Errorf("Euler calls are not properly nested: %s (open at the end: %v)", nestErr, trunc(stack))
	}
	if !sameInts(enters, wantPre) || !sameInts(exits, wantPost) {
		return fmt.Errorf("Euler Enter sequence %v / Exit sequence %v differ from pre-order %v / post-order %v", trunc(enters), trunc(exits), trunc(wantPre), trunc(wantPost))
	}
	graphalg.Euler{}.Visit(g, root) // nil callbacks are allowed

	// strongly connected components
	comp := components(adj)
	for _, flags := range []graphalg.SCCFlags{0, graphalg.SCCSubnodeComponent, graphalg.SCCEdges, graphalg.SCCSubnodeComponent | graphalg.SCCEdges} {
		s := graphalg.SCC(g, flags)
		seen := make([]int, n)
		cid := make([]int, n)
		for c := 0; c < s.NumNodes(); c++ {
			sub := s.Subnodes(c)
			if len(sub) == 0 {
				return fmt.Errorf("SCC(flags %d): component %d is empty", flags, c)
			}
			for _, v := range sub {
				if v < 0 || v >= n {
					return fmt.Errorf("SCC: component %d lists node %d", c, v)
				}
				seen[v]++
				cid[v] = c
				if comp[v] != comp[sub[0]] {
					return fmt.Errorf("SCC(flags %d): nodes %d and %d share component %d but do not reach each other", flags, sub[0], v, c)
				}
			}
		}
		for v := range seen {
			if seen[v] != 1 {
				return fmt.Errorf("SCC(flags %d): node %d appears in %d components", flags, v, seen[v])
			}
		}
		for u := 0; u < n; u++ {
			for v := u + 1; v < n && heavy; v++ {
				if (comp[u] == comp[v]) != (cid[u] == cid[v]) {
					return fmt.Errorf("SCC(flags %d): nodes %d and %d: mutually reachable %v, same component %v", flags, u, v, comp[u] == comp[v], cid[u] == cid[v])
				}
			}
		}
		// number of components must match (covers the non-heavy case)
		distinct := map[int]bool{}
		for _, c := range comp {
			distinct[c] = true
		}
		if len(distinct) != s.NumNodes() {
			return fmt.Errorf("SCC(flags %d): %d components, the graph has %d", flags, s.NumNodes(), len(distinct))
		}
		// reverse topological numbering and edge lists
		outSets := make([]map[int]bool, s.NumNodes())
		for u := range adj {
			for _, v := range adj[u] {
				if cid[u] != cid[v] {
					if !(cid[v] < cid[u]) {
						return fmt.Errorf("SCC(flags %d): edge %d->%d goes from component %d to %d: not in reverse topological order", flags, u, v, cid[u], cid[v])
					}
					if outSets[cid[u]] == nil {
						outSets[cid[u]] = map[int]bool{}
					}
					outSets[cid[u]][cid[v]] = true
				}
			}
		}
		if flags&(graphalg.SCCSubnodeComponent|graphalg.SCCEdges) != 0 {
			for v := 0; v < n; v++ {
				if s.SubnodeComponent(v) != cid[v] {
					return fmt.Errorf("SCC(flags %d): SubnodeComponent(%d) = %d, but Subnodes lists it in %d", flags, v, s.SubnodeComponent(v), cid[v])
				}
			}
		}
		for c := 0; c < s.NumNodes(); c++ {
			out := s.Out(c)
			if flags&graphalg.SCCEdges == 0 && len(out) == 0 {
				// edges were not asked for: nothing is claimed (if some are listed
				// all the same, they must be the right ones)
				continue
			}
			var want []int
			for k := range outSets[c] {
				want = append(want, k)
			}
			sort.Ints(want)
			// a set, listed once each: the order within the list is not specified
			if !sameInts(sortedCopy(out), want) {
				return fmt.Errorf("SCC: Out(%d) = %v, components with an edge from it: %v", c, trunc(out), trunc(want))
			}
		}
	}

	// MakeBiGraph
	bg := graph.MakeBiGraph(g)
	if bg.NumNodes() != n {
		return fmt.Errorf("MakeBiGraph: %d nodes", bg.NumNodes())
	}
	preds := make([][]int, n)
	for u := range adj {
		for _, v := range adj[u] {
			preds[v] = append(preds[v], u)
		}
	}
	for v := 0; v < n; v++ {
		if !sameInts(sortedCopy(bg.In(v)), sortedCopy(preds[v])) {
			return fmt.Errorf("MakeBiGraph: In(%d) = %v, transpose has %v", v, trunc(bg.In(v)), trunc(preds[v]))
		}
		if !sameInts(bg.Out(v), adj[v]) {
			return fmt.Errorf("MakeBiGraph: Out(%d) changed", v)
		}
	}
	if again := graph.MakeBiGraph(bg); again != bg {
		return fmt.Errorf("MakeBiGraph of a BiGraph did not return it unchanged")
	}

	// SimplifyMulti, unit weights and given weights
	for pass := 0; pass < 2; pass++ {
		var in graph.Graph = g
		wOf := func(u, e int) float64 { return 1 }
		if pass == 1 {
			if weights == nil {
				break
			}
			in = weighted{g, weights}
			wOf = func(u, e int) float64 { return weights[u][e] }
		}
		sm := graphalg.SimplifyMulti(in)
		if sm.NumNodes() != n {
			return fmt.Errorf("SimplifyMulti: %d nodes", sm.NumNodes())
		}
		for u := 0; u < n; u++ {
			want := map[int]float64{}
			for e, v := range adj[u] {
				want[v] += wOf(u, e)
			}
			out := sm.Out(u)
			if len(out) != len(want) {
				return fmt.Errorf("SimplifyMulti: node %d has edges %v, distinct targets %d", u, trunc(out), len(want))
			}
			seen := map[int]bool{}
			for e, v := range out {
				if seen[v] {
					return fmt.Errorf("SimplifyMulti: node %d still has parallel edges to %d", u, v)
				}
				seen[v] = true
				w, ok := want[v]
				if !ok {
					return fmt.Errorf("SimplifyMulti: node %d has an edge to %d that the input lacks", u, v)
				}
				if got := sm.OutWeight(u, e); math.Abs(got-w) > 1e-12*math.Abs(w) {
					return fmt.Errorf("SimplifyMulti: weight of %d->%d = %v, sum of the parallel edges %v", u, v, got, w)
				}
			}
		}
	}
	if !adjEqual(adj, orig) {
		return fmt.Errorf("an algorithm modified the graph's adjacency lists")
	}
	return nil
}

type ptrGraph struct{ graph.IntGraph }

type weighted struct {
	graph.IntGraph
	w [][]float64
}

func (w weighted) OutWeight(i, e int) float64 { return w.w[i][e] }

func trunc(xs []int) string {
	if len(xs) <= 24 {
		return fmt.Sprint(xs)
	}
	return fmt.Sprintf("%v...(%d)", xs[:24], len(xs))
}

// GCase is a general multigraph.
type GCase struct {
	Adj     [][]int     `json:"adj"`
	Root    int         `json:"root"`
	Weights [][]float64 `json:"weights,omitempty"`
}

func validAdj(adj [][]int) bool {
	for _, l := range adj {
		for _, v := range l {
			if v < 0 || v >= len(adj) {
				return false
			}
		}
	}
	return true
}

func hasCycleOrParallel(adj [][]int) bool {
	comp := components(adj)
	count := map[int]int{}
	for _, c := range comp {
		count[c]++
	}
	for u, l := range adj {
		seen := map[int]bool{}
		for _, v := range l {
			if seen[v] || v == u {
				return true
			}
			seen[v] = true
		}
	}
	for _, c := range count {
		if c > 1 {
			return true
		}
	}
	return false
}

var checkGraph = ev.Register("graph-core", func(c *GCase) ev.Outcome {
	n := len(c.Adj)
	if n == 0 || c.Root < 0 || c.Root >= n || !validAdj(c.Adj) {
		return ev.Fail("harness error: graph")
	}
	if err := coreCheck(c.Adj, c.Root, c.Weights, n <= 80); err != nil {
		return ev.Outcome{Err: err}
	}
	// Equal: multiset comparison of adjacency lists
	g := graph.IntGraph(c.Adj)
	shuffled := copyAdj(c.Adj)
	for _, l := range shuffled {
		for i, j := 0, len(l)-1; i < j; i, j = i+1, j-1 {
			l[i], l[j] = l[j], l[i]
		}
	}
	a, b := copyAdj(c.Adj), copyAdj(shuffled)
	if !graph.Equal(graph.IntGraph(a), graph.IntGraph(b)) || !graph.Equal(graph.IntGraph(b), graph.IntGraph(a)) {
		return ev.Fail("Equal is false for two graphs whose adjacency lists are equal as multisets")
	}
	if !adjEqual(a, c.Adj) || !adjEqual(b, shuffled) {
		return ev.Fail("Equal modified its arguments")
	}
	if !graph.Equal(g, g) {
		return ev.Fail("Equal(g,g) is false")
	}
	// one differing edge / one extra parallel edge / different node count
	for u := range c.Adj {
		if len(c.Adj[u]) > 0 {
			d := copyAdj(c.Adj)
			d[u][0] = (d[u][0] + 1) % n
			same := sameInts(sortedCopy(d[u]), sortedCopy(c.Adj[u]))
			if graph.Equal(g, graph.IntGraph(d)) != same {
				return ev.Fail("Equal = %v for graphs that differ in an edge of node %d (%v vs %v)", !same, u, c.Adj[u], d[u])
			}
			// same set of targets but different multiplicities
			if len(c.Adj[u]) >= 2 && c.Adj[u][0] != c.Adj[u][1] {
				m := copyAdj(c.Adj)
				m[u][1] = m[u][0]
				if graph.Equal(g, graph.IntGraph(m)) {
					return ev.Fail("Equal is true although node %d has %v in one graph and %v in the other", u, c.Adj[u], m[u])
				}
			}
			break
		}
	}
	if graph.Equal(g, graph.IntGraph(append(copyAdj(c.Adj), nil))) {
		return ev.Fail("Equal is true for graphs with different numbers of nodes")
	}
	classes := []string{"multigraph"}
	if c.Weights != nil {
		classes = append(classes, "weighted")
	}
	return ev.OK(n >= 3 && hasCycleOrParallel(c.Adj), classes...)
})

// ---------------------------------------------------------------- exhaustive small graphs

// SmallCase: the digraph on N nodes whose adjacency matrix is Mask (bit u*N+v =
// edge u->v), in one of three presentations of the lists.
type SmallCase struct {
	N       int    `json:"n"`
	Mask    uint64 `json:"mask"`
	Variant int    `json:"variant"` // 0 ascending lists, 1 descending, 2 first edge duplicated
	Root    int    `json:"root"`
}

func (c *SmallCase) adj() [][]int {
	adj := make([][]int, c.N)
	for u := 0; u < c.N; u++ {
		for v := 0; v < c.N; v++ {
			if c.Mask>>(uint(u*c.N+v))&1 == 1 {
				adj[u] = append(adj[u], v)
			}
		}
		switch c.Variant {
		case 1:
			for i, j := 0, len(adj[u])-1; i < j; i, j = i+1, j-1 {
				adj[u][i], adj[u][j] = adj[u][j], adj[u][i]
			}
		case 2:
			if len(adj[u]) > 0 {
				adj[u] = append(adj[u], adj[u][0])
			}
		}
	}
	return adj
}

var checkSmall = ev.Register("graph-small", func(c *SmallCase) ev.Outcome {
	if c.N < 1 || c.N > 6 || c.Root < 0 || c.Root >= c.N {
		return ev.Fail("harness error: small graph")
	}
	adj := c.adj()
	if err := coreCheck(adj, c.Root, nil, true); err != nil {
		return ev.Outcome{Err: fmt.Errorf("graph %v: %w", adj, err)}
	}
	return ev.OK(c.N >= 3 && hasCycleOrParallel(adj), "small-exhaustive")
})

// ---------------------------------------------------------------- large structured graphs

type BigCase struct {
	Kind  string `json:"kind"`
	N     int    `json:"n"`
	Param int    `json:"param"`
	Root  int    `json:"root"`
}

func (c *BigCase) Summary() string { return fmt.Sprintf("%s n=%d", c.Kind, c.N) }

var checkBig = ev.Register("graph-structured", func(c *BigCase) ev.Outcome {
	adj, err := structured(c.Kind, c.N, c.Param)
	if err != nil || c.Root < 0 || c.Root >= c.N {
		return ev.Fail("harness error: %v", err)
	}
	if err := coreCheck(adj, c.Root, nil, false); err != nil {
		return ev.Outcome{Err: fmt.Errorf("%s graph with %d nodes: %w", c.Kind, c.N, err)}
	}
	if err := bigSubgraphProbe(adj); err != nil {
		return ev.Outcome{Err: fmt.Errorf("%s graph with %d nodes: %w", c.Kind, c.N, err)}
	}
	return ev.OK(c.N >= 64, "structured-"+c.Kind)
})

// bigSubgraphProbe removes the last node and a few edges with the highest, middle and
// 65536-ish indices of the node of largest out-degree from a big graph and compares the result
// of SubgraphRemove with the definition (surviving nodes in ascending order, every surviving
// edge once, NodeMap/EdgeMap translating back).
func bigSubgraphProbe(adj [][]int) error {
	n := len(adj)
	if n < 3 {
		return nil
	}
	g := graph.IntGraph(adj)
	hub := 0
	for u := range adj {
		if len(adj[u]) > len(adj[hub]) {
			hub = u
		}
	}
	rmNode := n - 1
	rmE := map[[2]int]bool{}
	var redges []graph.Edge
	d := len(adj[hub])
	for _, e := range []int{d - 1, d / 2, 65536, 65537, 131072, 0} {
		if e >= 0 && e < d && !rmE[[2]int{hub, e}] {
			rmE[[2]int{hub, e}] = true
			redges = append(redges, graph.Edge{Node: hub, Edge: e})
		}
	}
	if len(adj[1]) > 0 {
		// an edge that must survive although (1, 0) and (hub, 65536) could share a packed key
		_ = adj[1][0]
	}
	sr := graph.SubgraphRemove(g, []int{rmNode}, redges)
	if sr.NumNodes() != n-1 {
		return fmt.Errorf("SubgraphRemove(node %d, %d edges of node %d): %d nodes, want %d", rmNode, len(redges), hub, sr.NumNodes(), n-1)
	}
	nm := sr.NodeMap(func(v int) interface{} { return v })
	em := sr.EdgeMap(func(v, e int) interface{} { return [2]int{v, e} })
	for i := 0; i < n-1; i++ {
		if nm(i) != i { // node n-1 removed: the others keep their ids
			return fmt.Errorf("SubgraphRemove: NodeMap(%d) = %v, want %d", i, nm(i), i)
		}
		var want [][2]int // surviving old edges (index, target)
		for e, to := range adj[i] {
			if to != rmNode && !rmE[[2]int{i, e}] {
				want = append(want, [2]int{e, to})
			}
		}
		out := sr.Out(i)
		if len(out) != len(want) {
			return fmt.Errorf("SubgraphRemove: node %d keeps %d out-edges, want %d (removed: node %d and edges %v)", i, len(out), len(want), rmNode, redges)
		}
		if len(out) > 64 && i != hub {
			continue
		}
		seen := map[int]bool{}
		for e, to := range out {
			oe := em(i, e).([2]int)
			if oe[0] != i || oe[1] < 0 || oe[1] >= len(adj[i]) || adj[i][oe[1]] != to || to == rmNode || rmE[oe] || seen[oe[1]] {
				return fmt.Errorf("SubgraphRemove: new edge %d of node %d (to %d) maps to original edge %v", e, i, to, oe)
			}
			seen[oe[1]] = true
		}
	}
	return nil
}

// ---------------------------------------------------------------- NodeMarks histories

type MarkOp struct {
	Kind string `json:"k"` // mark, unmark, test, next
	I    int    `json:"i"`
}

type MarksCase struct {
	Ops []MarkOp `json:"ops"`
}

var checkMarks = ev.Register("nodemarks", func(c *MarksCase) ev.Outcome {
	m := graphalg.NewNodeMarks()
	model := map[int]bool{}
	maxID := 0
	for step, op := range c.Ops {
		switch op.Kind {
		case "mark":
			if op.I < 0 {
				return ev.Fail("harness error: marks hold non-negative integers")
			}
			m.Mark(op.I)
			model[op.I] = true
			if op.I > maxID {
				maxID = op.I
			}
		case "unmark":
			if op.I < 0 {
				return ev.Fail("harness error: marks hold non-negative integers")
			}
			m.Unmark(op.I)
			delete(model, op.I)
		case "test":
			if got := m.Test(op.I); got != model[op.I] {
				return ev.Fail("step %d: Test(%d) = %v, model %v", step, op.I, got, model[op.I])
			}
		case "next":
			want := -1
			for k := range model {
				if k > op.I && (want == -1 || k < want) {
					want = k
				}
			}
			if got := m.Next(op.I); got != want {
				return ev.Fail("step %d: Next(%d) = %d, model %d", step, op.I, got, want)
			}
		default:
			return ev.Fail("harness error: op")
		}
	}
	// final sweep: iterate the whole set with Next
	var got []int
	for i := m.Next(-1); i >= 0; i = m.Next(i) {
		got = append(got, i)
		if len(got) > len(model)+1 {
			break
		}
	}
	var want []int
	for k := range model {
		want = append(want, k)
	}
	sort.Ints(want)
	if !sameInts(got, want) {
		return ev.Fail("iterating with Next yields %v, the set is %v", trunc(got), trunc(want))
	}
	cl := "marks-small"
	if maxID >= 1024 {
		cl = "marks-beyond-1024"
	}
	return ev.OK(maxID >= 1024, cl)
})

// ---------------------------------------------------------------- subgraphs

type SubCase struct {
	Adj       [][]int  `json:"adj"`
	KeepNodes []int    `json:"keep_nodes"` // in the order given to SubgraphKeep
	KeepEdges [][2]int `json:"keep_edges"` // (node, edge index), both ends kept
	RmNodes   []int    `json:"rm_nodes"`
	RmEdges   [][2]int `json:"rm_edges"`
}

var checkSub = ev.Register("subgraph", func(c *SubCase) ev.Outcome {
	n := len(c.Adj)
	if !validAdj(c.Adj) {
		return ev.Fail("harness error: graph")
	}
	orig := copyAdj(c.Adj)
	g := &ptrGraph{graph.IntGraph(c.Adj)} // a pointer, so that Underlying() can be compared by identity
	nodeName := func(v int) interface{} { return fmt.Sprintf("node%d", v) }
	edgeName := func(v, e int) interface{} { return [2]int{v, e} }

	// --- SubgraphKeep
	kept := map[int]int{}
	for i, v := range c.KeepNodes {
		if v < 0 || v >= n {
			return ev.Fail("harness error: keep node")
		}
		if _, dup := kept[v]; dup {
			return ev.Fail("harness error: duplicate keep node")
		}
		kept[v] = i
	}
	var edges []graph.Edge
	for _, e := range c.KeepEdges {
		if e[0] < 0 || e[0] >= n || e[1] < 0 || e[1] >= len(c.Adj[e[0]]) {
			return ev.Fail("harness error: keep edge")
		}
		if _, ok := kept[e[0]]; !ok {
			return ev.Fail("harness error: keep edge from a node that is not kept")
		}
		if _, ok := kept[c.Adj[e[0]][e[1]]]; !ok {
			return ev.Fail("harness error: keep edge to a node that is not kept")
		}
		edges = append(edges, graph.Edge{Node: e[0], Edge: e[1]})
	}
	// The argument slices are the caller's: they must come back untouched, and the caller
	// re-uses them afterwards (overwritten here) - the subgraph must not depend on them.
	knodes := append(make([]int, 0, 2*len(c.KeepNodes)+2), c.KeepNodes...)
	kedges := append(make([]graph.Edge, 0, 2*len(edges)+2), edges...)
	sk := graph.SubgraphKeep(g, knodes, kedges)
	if fmt.Sprint(knodes) != fmt.Sprint(c.KeepNodes) || fmt.Sprint(kedges) != fmt.Sprint(edges) {
		return ev.Fail("SubgraphKeep modified its arguments: nodes %v -> %v, edges %v -> %v", c.KeepNodes, knodes, edges, kedges)
	}
	for i := range knodes {
		knodes[i] = -1 - i
	}
	for i := range kedges {
		kedges[i] = graph.Edge{Node: -7, Edge: -7}
	}
	if sk.Underlying() != graph.Graph(g) {
		return ev.Fail("SubgraphKeep: Underlying is not the original graph")
	}
	if sk.NumNodes() != len(c.KeepNodes) {
		return ev.Fail("SubgraphKeep: %d nodes, %d requested", sk.NumNodes(), len(c.KeepNodes))
	}
	nm, em := sk.NodeMap(nodeName), sk.EdgeMap(edgeName)
	var gotEdges, wantEdges [][2]int
	for i := 0; i < sk.NumNodes(); i++ {
		if nm(i) != nodeName(c.KeepNodes[i]) {
			return ev.Fail("SubgraphKeep: NodeMap(%d) = %v, want %v", i, nm(i), nodeName(c.KeepNodes[i]))
		}
		for e, to := range sk.Out(i) {
			oe := em(i, e).([2]int)
			if oe[0] != c.KeepNodes[i] || oe[1] < 0 || oe[1] >= len(c.Adj[oe[0]]) {
				return ev.Fail("SubgraphKeep: EdgeMap(%d,%d) = %v is not an edge of original node %d", i, e, oe, c.KeepNodes[i])
			}
			if to < 0 || to >= len(c.KeepNodes) || c.KeepNodes[to] != c.Adj[oe[0]][oe[1]] {
				return ev.Fail("SubgraphKeep: new edge %d->%d maps to original edge %v whose target is %d", i, to, oe, c.Adj[oe[0]][oe[1]])
			}
			gotEdges = append(gotEdges, oe)
		}
	}
	wantEdges = append(wantEdges, c.KeepEdges...)
	if !sameEdgeSets(gotEdges, wantEdges) {
		return ev.Fail("SubgraphKeep: edges %v, requested %v", gotEdges, wantEdges)
	}

	// --- SubgraphRemove
	rmN := map[int]bool{}
	for _, v := range c.RmNodes {
		rmN[v] = true
	}
	rmE := map[[2]int]bool{}
	var redges []graph.Edge
	for _, e := range c.RmEdges {
		rmE[e] = true
		redges = append(redges, graph.Edge{Node: e[0], Edge: e[1]})
	}
	rnodes := append(make([]int, 0, 2*len(c.RmNodes)+2), c.RmNodes...)
	redges2 := append(make([]graph.Edge, 0, 2*len(redges)+2), redges...)
	sr := graph.SubgraphRemove(g, rnodes, redges2)
	if fmt.Sprint(rnodes) != fmt.Sprint(c.RmNodes) || fmt.Sprint(redges2) != fmt.Sprint(redges) {
		return ev.Fail("SubgraphRemove modified its arguments: nodes %v -> %v, edges %v -> %v", c.RmNodes, rnodes, redges, redges2)
	}
	for i := range rnodes {
		rnodes[i] = -1 - i
	}
	for i := range redges2 {
		redges2[i] = graph.Edge{Node: -7, Edge: -7}
	}
	if sr.Underlying() != graph.Graph(g) {
		return ev.Fail("SubgraphRemove: Underlying is not the original graph")
	}
	var wantNodes []int
	for v := 0; v < n; v++ {
		if !rmN[v] {
			wantNodes = append(wantNodes, v)
		}
	}
	if sr.NumNodes() != len(wantNodes) {
		return ev.Fail("SubgraphRemove: %d nodes, want %d", sr.NumNodes(), len(wantNodes))
	}
	nm, em = sr.NodeMap(nodeName), sr.EdgeMap(edgeName)
	oldOf := make([]int, sr.NumNodes())
	seenOld := map[interface{}]bool{}
	for i := 0; i < sr.NumNodes(); i++ {
		name := nm(i)
		if seenOld[name] {
			return ev.Fail("SubgraphRemove: two nodes map to %v", name)
		}
		seenOld[name] = true
		found := -1
		for _, v := range wantNodes {
			if nodeName(v) == name {
				found = v
			}
		}
		if found < 0 {
			return ev.Fail("SubgraphRemove: NodeMap(%d) = %v is not a surviving node", i, name)
		}
		oldOf[i] = found
	}
	gotEdges, wantEdges = nil, nil
	for i := 0; i < sr.NumNodes(); i++ {
		for e, to := range sr.Out(i) {
			oe := em(i, e).([2]int)
			if oe[0] != oldOf[i] || oe[1] < 0 || oe[1] >= len(c.Adj[oe[0]]) {
				return ev.Fail("SubgraphRemove: EdgeMap(%d,%d) = %v is not an edge of original node %d", i, e, oe, oldOf[i])
			}
			if to < 0 || to >= sr.NumNodes() || oldOf[to] != c.Adj[oe[0]][oe[1]] {
				return ev.Fail("SubgraphRemove: new edge %d->%d maps to original edge %v whose target is %d", i, to, oe, c.Adj[oe[0]][oe[1]])
			}
			gotEdges = append(gotEdges, oe)
		}
	}
	for u := 0; u < n; u++ {
		if rmN[u] {
			continue
		}
		for e, v := range c.Adj[u] {
			if !rmN[v] && !rmE[[2]int{u, e}] {
				wantEdges = append(wantEdges, [2]int{u, e})
			}
		}
	}
	if !sameEdgeSets(gotEdges, wantEdges) {
		return ev.Fail("SubgraphRemove: surviving edges %v, want %v", gotEdges, wantEdges)
	}
	if !adjEqual(c.Adj, orig) {
		return ev.Fail("a Subgraph constructor modified the graph")
	}
	return ev.OK(n >= 3 && (len(c.KeepEdges) > 0 || len(c.RmEdges) > 0), "subgraph")
})

func sameEdgeSets(a, b [][2]int) bool {
	if len(a) != len(b) {
		return false
	}
	key := func(xs [][2]int) []string {
		out := make([]string, len(xs))
		for i, x := range xs {
			out[i] = fmt.Sprint(x)
		}
		sort.Strings(out)
		return out
	}
	ka, kb := key(a), key(b)
	for i := range ka {
		if ka[i] != kb[i] {
			return false
		}
	}
	return true
}

// ---------------------------------------------------------------- Dot

// BS is a string of arbitrary bytes (Go strings and dot strings are byte strings) that survives
// the JSON of a replay file: valid UTF-8 is written as a JSON string, anything else as
// {"hex": "..."} - encoding/json would turn the invalid bytes into U+FFFD.
type BS string

func (b BS) MarshalJSON() ([]byte, error) {
	if utf8.ValidString(string(b)) {
		return json.Marshal(string(b))
	}
	return json.Marshal(map[string]string{"hex": hex.EncodeToString([]byte(b))})
}

func (b *BS) UnmarshalJSON(d []byte) error {
	var s string
	if json.Unmarshal(d, &s) == nil {
		*b = BS(s)
		return nil
	}
	var m map[string]string
	if err := json.Unmarshal(d, &m); err != nil {
		return err
	}
	raw, err := hex.DecodeString(m["hex"])
	if err != nil {
		return err
	}
	*b = BS(raw)
	return nil
}

type AttrSpec struct {
	Name string  `json:"name"`
	Kind string  `json:"kind"` // string, int, uint, float, literal
	S    BS      `json:"s,omitempty"`
	I    int     `json:"i,omitempty"`
	F    float64 `json:"f,omitempty"`
}

func (a AttrSpec) attr() graphout.DotAttr {
	switch a.Kind {
	case "int":
		return graphout.DotAttr{Name: a.Name, Val: a.I}
	case "uint":
		return graphout.DotAttr{Name: a.Name, Val: uint(a.I)}
	case "float":
		return graphout.DotAttr{Name: a.Name, Val: a.F}
	case "literal":
		return graphout.DotAttr{Name: a.Name, Val: graphout.DotLiteral(a.S)}
	}
	return graphout.DotAttr{Name: a.Name, Val: string(a.S)}
}

func (a AttrSpec) rendered() (string, bool) { // value text; quoted?
	switch a.Kind {
	case "int", "uint":
		return fmt.Sprintf("%v", a.I), false
	case "float":
		return fmt.Sprintf("%v", a.F), false
	case "literal":
		return string(a.S), false
	}
	return string(a.S), true
}

type DotCase struct {
	Adj       [][]int      `json:"adj"`
	Name      BS           `json:"name"`
	Labels    []BS         `json:"labels"` // nil: default labels
	NodeAttrs [][]AttrSpec `json:"node_attrs"`
	EdgeAttrs [][]AttrSpec `json:"edge_attrs"` // indexed by node, applies to every edge of the node
}

var checkDot = ev.Register("dot", func(c *DotCase) ev.Outcome {
	n := len(c.Adj)
	if !validAdj(c.Adj) || (c.Labels != nil && len(c.Labels) != n) || (c.NodeAttrs != nil && len(c.NodeAttrs) != n) || (c.EdgeAttrs != nil && len(c.EdgeAttrs) != n) {
		return ev.Fail("harness error: dot case")
	}
	d := graphout.Dot{Name: string(c.Name)}
	if c.Labels != nil {
		d.Label = func(v int) string { return string(c.Labels[v]) }
	}
	// The attribute callbacks hand out windows of ONE table each (a caller's static table of
	// attributes): every returned slice has spare capacity that runs into the next node's
	// attributes, so an append by the printer would overwrite them. The tables must be intact
	// afterwards.
	var nodeTable, edgeTable []graphout.DotAttr
	nodeOff, edgeOff := make([]int, n+1), make([]int, n+1)
	for v := 0; v < n; v++ {
		nodeOff[v], edgeOff[v] = len(nodeTable), len(edgeTable)
		if c.NodeAttrs != nil {
			for _, a := range c.NodeAttrs[v] {
				nodeTable = append(nodeTable, a.attr())
			}
		}
		if c.EdgeAttrs != nil {
			for _, a := range c.EdgeAttrs[v] {
				edgeTable = append(edgeTable, a.attr())
			}
		}
	}
	nodeOff[n], edgeOff[n] = len(nodeTable), len(edgeTable)
	nodeTable = append(nodeTable, graphout.DotAttr{Name: "sentinel", Val: "sentinel"})
	edgeTable = append(edgeTable, graphout.DotAttr{Name: "sentinel", Val: "sentinel"})
	nodeBefore, edgeBefore := fmt.Sprint(nodeTable), fmt.Sprint(edgeTable)
	if c.NodeAttrs != nil {
		d.NodeAttrs = func(v int) []graphout.DotAttr { return nodeTable[nodeOff[v]:nodeOff[v+1]] }
	}
	if c.EdgeAttrs != nil {
		d.EdgeAttrs = func(v, e int) []graphout.DotAttr { return edgeTable[edgeOff[v]:edgeOff[v+1]] }
	}
	text := d.Sprint(graph.IntGraph(c.Adj))
	if fmt.Sprint(nodeTable) != nodeBefore || fmt.Sprint(edgeTable) != edgeBefore {
		return ev.Fail("Dot wrote into the attribute slices returned by the callbacks: node table %s -> %v, edge table %s -> %v", nodeBefore, nodeTable, edgeBefore, edgeTable)
	}
	// The property is about what the text *means* as a dot graph - every node and every edge
	// named once, strings surviving the quoting - not about its layout: the parser accepts any
	// spacing, statement order, node naming scheme and attribute order.
	g, err := parseDot(text)
	if err != nil {
		return ev.Fail("Dot output does not parse: %v\n%s", err, text)
	}
	if g.name != string(c.Name) {
		return ev.Fail("graph name unescapes to %q, want %q\n%s", g.name, string(c.Name), text)
	}
	// what each node must say about itself (as a canonical signature), and each edge
	wantNode := make([]string, n)
	for v := 0; v < n; v++ {
		var attrs []AttrSpec
		haveLabel := false
		if c.NodeAttrs != nil {
			attrs = append(attrs, c.NodeAttrs[v]...)
			for _, a := range attrs {
				if a.Name == "label" {
					haveLabel = true
				}
			}
		}
		if !haveLabel {
			l := fmt.Sprintf("%d", v)
			if c.Labels != nil {
				l = string(c.Labels[v])
			}
			attrs = append(attrs, AttrSpec{Name: "label", Kind: "string", S: BS(l)})
		}
		wantNode[v] = wantSig(attrs)
	}
	if len(g.nodes) != n {
		return ev.Fail("Dot output declares %d nodes, the graph has %d\n%s", len(g.nodes), n, text)
	}
	// every declared node must be one of the graph's nodes: compare as multisets of signatures
	gotSigs, wantSigs := []string{}, append([]string(nil), wantNode...)
	sigOf := map[string]string{}
	for id, attrs := range g.nodes {
		sg := gotSig(attrs)
		sigOf[id] = sg
		gotSigs = append(gotSigs, sg)
	}
	sort.Strings(gotSigs)
	sort.Strings(wantSigs)
	for k := range wantSigs {
		if gotSigs[k] != wantSigs[k] {
			return ev.Fail("node statements carry %q, the nodes are %q (as sorted attribute signatures; strings after unescaping)\n%s", gotSigs, wantSigs, text)
		}
	}
	// edges: every edge once, between the right nodes (identified by what the nodes say about
	// themselves - exact when those signatures are distinct, which the generator mostly ensures)
	var gotE, wantE []string
	for _, e := range g.edges {
		fs, ok1 := sigOf[e.from]
		ts, ok2 := sigOf[e.to]
		if !ok1 || !ok2 {
			return ev.Fail("edge %s -> %s refers to a node that is not declared\n%s", e.from, e.to, text)
		}
		gotE = append(gotE, fs+" => "+ts+" : "+gotSig(e.attrs))
	}
	for v := 0; v < n; v++ {
		for _, to := range c.Adj[v] {
			var ea []AttrSpec
			if c.EdgeAttrs != nil {
				ea = c.EdgeAttrs[v]
			}
			wantE = append(wantE, wantNode[v]+" => "+wantNode[to]+" : "+wantSig(ea))
		}
	}
	if len(gotE) != len(wantE) {
		return ev.Fail("Dot output has %d edges, the graph has %d\n%s", len(gotE), len(wantE), text)
	}
	sort.Strings(gotE)
	sort.Strings(wantE)
	for k := range wantE {
		if gotE[k] != wantE[k] {
			return ev.Fail("edge statements differ from the graph's edges: got %q, want %q\n%s", gotE[k], wantE[k], text)
		}
	}
	distinct := map[string]bool{}
	for _, w := range wantNode {
		distinct[w] = true
	}
	all := string(c.Name)
	for _, l := range c.Labels {
		all += string(l)
	}
	special := strings.ContainsAny(all, "\"\\\n{}<>|")
	cl := []string{"dot-plain"}
	if special {
		cl = []string{"dot-special-characters"}
	}
	for _, as := range append(append([][]AttrSpec{}, c.NodeAttrs...), c.EdgeAttrs...) {
		for _, a := range as {
			all += string(a.S)
		}
	}
	if !utf8.ValidString(all) {
		cl = append(cl, "dot-strings-not-utf8")
	} else if len(all) != utf8.RuneCountInString(all) {
		cl = append(cl, "dot-strings-multibyte")
	}
	if len(distinct) == n {
		cl = append(cl, "dot-nodes-identifiable")
	}
	return ev.OK(n >= 1 && special, cl...)
})

// canonical attribute signatures: name=value pairs sorted; numbers compared by value
func canonVal(v string) string {
	if f, err := strconv.ParseFloat(v, 64); err == nil {
		return "#" + strconv.FormatFloat(f, 'g', -1, 64)
	}
	return "$" + v
}

func wantSig(as []AttrSpec) string {
	var parts []string
	for _, a := range as {
		// quoting is not part of the meaning ("1.5" and 1.5 are the same dot value)
		v, _ := a.rendered()
		parts = append(parts, a.Name+"="+canonVal(v))
	}
	sort.Strings(parts)
	return strings.Join(parts, "\x00")
}

func gotSig(as []dotAttr) string {
	var parts []string
	for _, a := range as {
		parts = append(parts, a.name+"="+a.val)
	}
	sort.Strings(parts)
	return strings.Join(parts, "\x00")
}

type dotAttr struct {
	name, val string // val in canonical form
}

type dotEdge struct {
	from, to string
	attrs    []dotAttr
}

type dotGraph struct {
	name  string
	nodes map[string][]dotAttr
	edges []dotEdge
}

// parseDot reads the dot language as far as a graph printer can use it: digraph [ID] { stmts },
// node and edge statements with attribute lists, the node/edge/graph default statements
// (ignored), IDs bare or double-quoted, any white space, ';' optional.
func parseDot(text string) (*dotGraph, error) {
	p := &dotParser{s: text}
	g := &dotGraph{nodes: map[string][]dotAttr{}}
	tok, q, err := p.next()
	if err != nil || q || tok != "digraph" {
		return nil, fmt.Errorf("does not start with 'digraph'")
	}
	tok, q, err = p.next()
	if err != nil {
		return nil, err
	}
	if q || tok != "{" {
		g.name = tok
		if tok, q, err = p.next(); err != nil {
			return nil, err
		}
	}
	if q || tok != "{" {
		return nil, fmt.Errorf("missing '{'")
	}
	for {
		tok, q, err = p.next()
		if err != nil {
			return nil, err
		}
		if !q && tok == "}" {
			if t2, _, e2 := p.next(); e2 == nil && t2 != "" {
				return nil, fmt.Errorf("text after the closing '}'")
			}
			return g, nil
		}
		if !q && tok == ";" {
			continue
		}
		if !q && (tok == "" || strings.ContainsAny(tok, "{}[]=,") || tok == "->") {
			return nil, fmt.Errorf("unexpected %q at %d", tok, p.i)
		}
		from, to, isEdge := tok, "", false
		save := p.i
		t2, q2, e2 := p.next()
		if e2 == nil && !q2 && t2 == "->" {
			if to, _, err = p.next(); err != nil || to == "" {
				return nil, fmt.Errorf("edge without a head at %d", p.i)
			}
			isEdge = true
		} else {
			p.i = save
		}
		var attrs []dotAttr
		for {
			save = p.i
			t3, q3, e3 := p.next()
			if e3 != nil || q3 || t3 != "[" {
				p.i = save
				break
			}
			for {
				nm, qn, e := p.next()
				if e != nil {
					return nil, e
				}
				if !qn && nm == "]" {
					break
				}
				if !qn && (nm == "," || nm == ";") {
					continue
				}
				if eq, qe, e := p.next(); e != nil || qe || eq != "=" {
					return nil, fmt.Errorf("attribute %q without '=' at %d", nm, p.i)
				}
				val, qv, e := p.next()
				if e != nil {
					return nil, e
				}
				_ = qv
				attrs = append(attrs, dotAttr{nm, canonVal(val)})
			}
		}
		switch {
		case isEdge:
			g.edges = append(g.edges, dotEdge{from, to, attrs})
		case !q && (from == "node" || from == "edge" || from == "graph"):
			// defaults: not a node
		default:
			if _, dup := g.nodes[from]; dup {
				return nil, fmt.Errorf("node %s is declared twice", from)
			}
			g.nodes[from] = attrs
		}
	}
}

type dotParser struct {
	s string
	i int
}

// next returns the next token: punctuation, a bare ID, or the unescaped content of a quoted
// string (quoted = true). At the end it returns "".
func (p *dotParser) next() (tok string, quoted bool, err error) {
	for p.i < len(p.s) && (p.s[p.i] == ' ' || p.s[p.i] == '\t' || p.s[p.i] == '\n' || p.s[p.i] == '\r') {
		p.i++
	}
	if p.i >= len(p.s) {
		return "", false, nil
	}
	ch := p.s[p.i]
	switch {
	case ch == '"':
		v, e := p.quoted()
		return v, true, e
	case strings.HasPrefix(p.s[p.i:], "->"):
		p.i += 2
		return "->", false, nil
	case strings.ContainsRune("{}[]=,;", rune(ch)):
		p.i++
		return string(ch), false, nil
	}
	j := p.i
	for j < len(p.s) && !strings.ContainsRune(" \t\n\r{}[]=,;\"", rune(p.s[j])) && !strings.HasPrefix(p.s[j:], "->") {
		j++
	}
	tok = p.s[p.i:j]
	p.i = j
	return tok, false, nil
}

// quoted reads a double-quoted string and unescapes it: \n is a newline, any other backslash
// pair stands for its second character; a raw newline is itself.
func (p *dotParser) quoted() (string, error) {
	if p.i >= len(p.s) || p.s[p.i] != '"' {
		return "", fmt.Errorf("expected '\"' at %d", p.i)
	}
	p.i++
	var out []byte
	for p.i < len(p.s) {
		ch := p.s[p.i]
		switch {
		case ch == '\\':
			if p.i+1 >= len(p.s) {
				return "", fmt.Errorf("dangling backslash")
			}
			nx := p.s[p.i+1]
			if nx == 'n' {
				out = append(out, '\n')
			} else {
				out = append(out, nx)
			}
			p.i += 2
		case ch == '"':
			p.i++
			return string(out), nil
		default:
			out = append(out, ch)
			p.i++
		}
	}
	return "", fmt.Errorf("unterminated string")
}

// ---------------------------------------------------------------- generators

const rule = "Exhaustive: every digraph on <=4 nodes (thorough 5) as adjacency matrix, lists ascending / descending / with the first edge " +
	"duplicated, every root. Random: rapid multigraphs up to 60 nodes with self-loops, parallel edges and unreachable parts at " +
	"densities 0..3 edges per node, optional edge weights; structured graphs (path, cycle, binary tree, layered DAG, path with back " +
	"edges, descending path) with 1000..100000 nodes; NodeMarks op sequences over ids up to 70000 incl. Next(-1), Next(<-1), " +
	"Test(<0). Oracle: explicit-stack DFS orders; Euler Enter/Exit = pre/post order and properly nested; SCC partition = mutual " +
	"reachability (Kosaraju + pairwise for n<=80), covers every node once, reverse topological numbering, Out = sorted unique " +
	"other components, nil without SCCEdges, SubnodeComponent consistent; SimplifyMulti sums parallel weights; MakeBiGraph In = " +
	"transpose; Equal = multiset equality; Subgraph node/edge sets and maps; Dot output parsed by a quote-aware parser: every node " +
	"and edge once in order, strings unescape to the originals, other attribute types verbatim. Non-trivial: >=3 nodes with a cycle " +
	"or parallel edge, or ids >= 1024. Later additions: Dot strings of arbitrary bytes (multi-byte and invalid UTF-8), broom / self-loop / two-cycle-chain kinds up to 100000 nodes, out-degrees beyond 2^17, subgraph arguments clobbered after the call."

func drawAdj(t *rapid.T, maxN int) [][]int {
	n := rapid.IntRange(1, maxN).Draw(t, "n")
	density := rapid.SampledFrom([]float64{1, 0.3, 2, 3, 0}).Draw(t, "density")
	adj := make([][]int, n)
	reach := n
	if rapid.IntRange(0, 3).Draw(t, "island") == 0 && n > 2 {
		reach = rapid.IntRange(1, n-1).Draw(t, "reach") // nodes >= reach only point among themselves / inward
	}
	for u := 0; u < n; u++ {
		k := 0
		if density > 0 {
			k = rapid.IntRange(0, int(2*density)+1).Draw(t, "deg")
		}
		for i := 0; i < k; i++ {
			hi := n - 1
			if u < reach && reach < n && rapid.IntRange(0, 4).Draw(t, "stay") != 0 {
				hi = reach - 1
			}
			v := rapid.IntRange(0, hi).Draw(t, "to")
			if rapid.IntRange(0, 9).Draw(t, "selfOrParallel") == 0 {
				if len(adj[u]) > 0 && rapid.Bool().Draw(t, "parallel") {
					v = adj[u][0]
				} else {
					v = u
				}
			}
			adj[u] = append(adj[u], v)
		}
		if adj[u] == nil {
			adj[u] = []int{}
		}
	}
	// hubs: a few nodes with very many out-edges, hence many distinct successors (past the
	// sizes 8, 16, 32, 64 at which a container might change representation) and many parallel
	// edges among them, in no particular order
	if n >= 6 && rapid.IntRange(0, 3).Draw(t, "hubs") == 0 {
		for h := rapid.IntRange(1, 3).Draw(t, "nhubs"); h > 0; h-- {
			u := rapid.IntRange(0, n-1).Draw(t, "hub")
			k := rapid.IntRange(n/2, 3*n).Draw(t, "hubdeg")
			if k > 400 {
				k = 400
			}
			for i := 0; i < k; i++ {
				adj[u] = append(adj[u], rapid.IntRange(0, n-1).Draw(t, "hubto"))
			}
		}
	}
	return adj
}

func TestSmallExhaustive(t *testing.T) {
	if ev.Replaying() {
		return
	}
	ev.Rule(rule)
	maxN := 4
	if ev.Thorough() {
		maxN = 5
	}
	for n := 1; n <= maxN; n++ {
		total := 1 << uint(n*n)
		chunk := 4096
		nchunks := (total + chunk - 1) / chunk
		nn := n
		ev.Parallel(t, nchunks, func(tb ev.TB, ci int) {
			if !ev.MyShare(ci) {
				return
			}
			for m := ci * chunk; m < (ci+1)*chunk && m < total; m++ {
				for variant := 0; variant < 3; variant++ {
					if nn == 5 && variant != 0 && m%16 != 0 {
						continue // the list-order variants are sampled for 5 nodes
					}
					for root := 0; root < nn; root++ {
						if nn == 5 && root != 0 && root != 4 {
							// every labelled graph is enumerated, so the other roots are relabellings of
							// these; the first and last label keep the index-order-dependent paths covered
							continue
						}
						checkSmall.RunEnum(tb, &SmallCase{N: nn, Mask: uint64(m), Variant: variant, Root: root})
					}
				}
			}
		})
	}
	ev.Exhaustive(fmt.Sprintf("all digraphs on 1..%d nodes x 3 list presentations x every root (5 nodes: roots 0 and 4, list variants sampled 1 in 16)", maxN))
}

func TestRandomGraphs(t *testing.T) {
	ev.Rule(rule)
	ev.Rapid(t, "c18-graphs", 1500, 80000, func(rt *rapid.T) {
		maxN := 60
		if rapid.IntRange(0, 9).Draw(rt, "larger") == 0 {
			maxN = 200
		}
		c := &GCase{Adj: drawAdj(rt, maxN)}
		c.Root = rapid.IntRange(0, len(c.Adj)-1).Draw(rt, "root")
		if rapid.Bool().Draw(rt, "weighted") {
			for _, l := range c.Adj {
				w := make([]float64, len(l))
				for i := range w {
					w[i] = float64(rapid.IntRange(1, 8).Draw(rt, "w")) / 4
				}
				c.Weights = append(c.Weights, w)
			}
		}
		checkGraph.Run(rt, c)
	})
}

// TestWideNodes: out-degrees beyond 2^16 and 2^17 (edge indices that no longer fit 16 bits).
func TestWideNodes(t *testing.T) {
	if ev.Replaying() {
		return
	}
	ev.Rule(rule)
	sizes := []int{65538, 70002, 131075}
	ev.Parallel(t, len(sizes), func(tb ev.TB, i int) {
		if ev.MyShare(i) {
			checkBig.RunEnum(tb, &BigCase{Kind: "broom", N: sizes[i], Param: 2})
		}
	})
}

func TestStructured(t *testing.T) {
	ev.Rule(rule)
	ev.Rapid(t, "c18-structured", 40, 640, func(rt *rapid.T) {
		c := &BigCase{Kind: rapid.SampledFrom([]string{"broom", "selfloops-path", "lcg-random", "doubled-path", "two-cycles-chain", "fan", "path", "cycle", "tree", "layers", "backedges", "reversed-path"}).Draw(rt, "kind")}
		switch rapid.IntRange(0, 4).Draw(rt, "size") {
		case 4: // around the 64-component mark and other word sizes
			c.N = rapid.SampledFrom([]int{63, 64, 65, 66, 67, 100, 127, 128, 129, 130, 200, 255, 256, 257}).Draw(rt, "wordsize")
		case 0:
			c.N = rapid.SampledFrom([]int{1023, 1024, 1025, 2047, 2048, 2049, 4096, 4097, 32768, 32769, 65536, 65537}).Draw(rt, "boundary")
		case 1:
			c.N = rapid.IntRange(1000, 5000).Draw(rt, "n")
		default:
			c.N = rapid.IntRange(5000, 100000).Draw(rt, "nbig")
		}
		c.Param = rapid.IntRange(2, 50).Draw(rt, "param")
		switch c.Kind {
		case "reversed-path":
			c.Root = c.N - 1
		case "cycle":
			c.Root = rapid.IntRange(0, c.N-1).Draw(rt, "root")
		}
		checkBig.Run(rt, c)
	})
}

func drawMarkOps(rt *rapid.T, maxOps int) *MarksCase {
	c := &MarksCase{}
	hi := rapid.SampledFrom([]int{70000, 100, 1100, 5000}).Draw(rt, "range")
	id := func() int {
		switch rapid.IntRange(0, 3).Draw(rt, "idKind") {
		case 0:
			return rapid.SampledFrom([]int{0, 31, 32, 1023, 1024, 1025, 2047, 2048, 4095, 4096, 65535, 65536}).Draw(rt, "boundary")
		default:
			return rapid.IntRange(0, hi).Draw(rt, "id")
		}
	}
	n := rapid.IntRange(1, maxOps).Draw(rt, "nops")
	for i := 0; i < n; i++ {
		switch rapid.IntRange(0, 5).Draw(rt, "op") {
		case 0, 1:
			c.Ops = append(c.Ops, MarkOp{"mark", id()})
		case 2:
			c.Ops = append(c.Ops, MarkOp{"unmark", id()})
		case 3:
			k := id()
			if rapid.IntRange(0, 7).Draw(rt, "negTest") == 0 {
				k = -rapid.IntRange(1, 100).Draw(rt, "neg")
			}
			c.Ops = append(c.Ops, MarkOp{"test", k})
		default:
			k := id()
			if rapid.IntRange(0, 4).Draw(rt, "negNext") == 0 {
				k = -rapid.IntRange(1, 40).Draw(rt, "neg")
			}
			c.Ops = append(c.Ops, MarkOp{"next", k})
		}
	}
	return c
}

func TestNodeMarks(t *testing.T) {
	ev.Rule(rule)
	ev.Rapid(t, "c18-marks", 1500, 120000, func(rt *rapid.T) {
		checkMarks.Run(rt, drawMarkOps(rt, 80))
	})
}

func TestSubgraphs(t *testing.T) {
	ev.Rule(rule)
	ev.Rapid(t, "c18-subgraph", 1500, 80000, func(rt *rapid.T) {
		c := &SubCase{Adj: drawAdj(rt, 20), KeepNodes: []int{}, KeepEdges: [][2]int{}, RmNodes: []int{}, RmEdges: [][2]int{}}
		n := len(c.Adj)
		perm := gen.Perm(rt, n, "order")
		k := rapid.IntRange(0, n).Draw(rt, "nkeep")
		c.KeepNodes = append(c.KeepNodes, perm[:k]...)
		kept := map[int]bool{}
		for _, v := range c.KeepNodes {
			kept[v] = true
		}
		// candidate edges between kept nodes, in a shuffled order, each kept with probability 2/3
		var cand [][2]int
		for _, u := range c.KeepNodes {
			for e, v := range c.Adj[u] {
				if kept[v] {
					cand = append(cand, [2]int{u, e})
				}
			}
		}
		if len(cand) > 1 {
			cand = rapid.Permutation(cand).Draw(rt, "edgeOrder")
		}
		for _, e := range cand {
			if rapid.IntRange(0, 2).Draw(rt, "keepEdge") != 0 {
				c.KeepEdges = append(c.KeepEdges, e)
			}
		}
		for v := 0; v < n; v++ {
			if rapid.IntRange(0, 3).Draw(rt, "rmNode") == 0 {
				c.RmNodes = append(c.RmNodes, v)
			}
			for e := range c.Adj[v] {
				if rapid.IntRange(0, 3).Draw(rt, "rmEdge") == 0 {
					c.RmEdges = append(c.RmEdges, [2]int{v, e})
				}
			}
		}
		checkSub.Run(rt, c)
	})
}

func TestDot(t *testing.T) {
	ev.Rule(rule)
	// the dot language gives \\n, \\l, \\r, \\N, \\G, \\E, \\T, \\H, \\L a meaning of their own: every letter
	// that can follow a backslash is in the alphabet, next to the characters DotString escapes
	ascii := rapid.StringOfN(rapid.RuneFrom([]rune("ab \"\\\n{}<>|;,]=[-nlrNGETHLt0\t")), 0, 8, -1)
	// Go strings are byte strings: multi-byte UTF-8 (e9 as c3 a9, the euro sign, U+FFFD itself) and
	// bytes that are not UTF-8 at all (Latin-1 text, a truncated sequence, ff fe) must come back
	// byte for byte as well
	valid := []string{"a", "b", " ", "\"", "\\", "\n", "{", "}", "<", ">", "|", "n", "\u00e9", "\u20ac", "\ufffd", "\U0001f600", "\u0301"}
	invalid := []string{"\xe9", "\xff", "\xfe", "\x80", "\xc3", "\xe2\x82", "\xc0\xaf", "\xf0\x9f", "\xed\xa0\x80"}
	str := rapid.Custom(func(rt *rapid.T) BS {
		mode := rapid.IntRange(0, 3).Draw(rt, "byteString")
		if mode <= 1 {
			return BS(ascii.Draw(rt, "s"))
		}
		pool := valid
		if mode == 3 {
			pool = append(append([]string{}, invalid...), valid...)
		}
		k := rapid.IntRange(1, 6).Draw(rt, "slen")
		out := ""
		for i := 0; i < k; i++ {
			out += rapid.SampledFrom(pool).Draw(rt, "token")
		}
		return BS(out)
	})
	attr := func(rt *rapid.T) AttrSpec {
		a := AttrSpec{Name: rapid.SampledFrom([]string{"color", "shape", "weight", "label", "tooltip"}).Draw(rt, "aname"),
			Kind: rapid.SampledFrom([]string{"string", "int", "uint", "float", "literal"}).Draw(rt, "akind")}
		switch a.Kind {
		case "string":
			a.S = str.Draw(rt, "aval")
		case "int":
			a.I = rapid.IntRange(-5, 100).Draw(rt, "ival")
		case "uint":
			a.I = rapid.IntRange(0, 100).Draw(rt, "uval")
		case "float":
			a.F = float64(rapid.IntRange(-40, 40).Draw(rt, "fval")) / 8
		default:
			a.S = BS(rapid.SampledFrom([]string{"red", "box", "1.5", "n1", "true"}).Draw(rt, "lit"))
		}
		return a
	}
	ev.Rapid(t, "c18-dot", 1500, 80000, func(rt *rapid.T) {
		c := &DotCase{Adj: drawAdj(rt, 8), Name: str.Draw(rt, "name")}
		n := len(c.Adj)
		if rapid.Bool().Draw(rt, "labels") {
			// mostly distinct (a different tail per node), so that every node statement can
			// be told apart by what it says and the edges are checked exactly
			uniq := rapid.IntRange(0, 3).Draw(rt, "distinctLabels") != 0
			for i := 0; i < n; i++ {
				l := str.Draw(rt, "label")
				if uniq {
					l += BS(rune('A' + i))
				}
				c.Labels = append(c.Labels, l)
			}
		}
		if rapid.Bool().Draw(rt, "nodeAttrs") {
			for i := 0; i < n; i++ {
				k := rapid.IntRange(0, 2).Draw(rt, "nattrs")
				as := []AttrSpec{}
				for j := 0; j < k; j++ {
					as = append(as, attr(rt))
				}
				c.NodeAttrs = append(c.NodeAttrs, as)
			}
		}
		if rapid.Bool().Draw(rt, "edgeAttrs") {
			for i := 0; i < n; i++ {
				k := rapid.IntRange(0, 2).Draw(rt, "eattrs")
				as := []AttrSpec{}
				for j := 0; j < k; j++ {
					a := attr(rt)
					if a.Name == "label" && a.Kind != "string" {
						a.Name = "weight"
					}
					as = append(as, a)
				}
				c.EdgeAttrs = append(c.EdgeAttrs, as)
			}
		}
		checkDot.Run(rt, c)
	})
}

// FuzzGraph is the native coverage-guided front end (thorough tier).
func FuzzGraph(f *testing.F) {
	f.Add(make([]byte, 96))
	f.Add([]byte("graph seed \x03\x01\x02\x00\x01\x02\x02\x02\x00\x01\x01\x03\x04\x05\x06\x07\x08\x09\x0a\x0b\x0c\x0d\x0e\x0f\x10\xff\xfe\xfd"))
	f.Fuzz(rapid.MakeFuzz(func(rt *rapid.T) {
		if rapid.Bool().Draw(rt, "marks") {
			checkMarks.Run(rt, drawMarkOps(rt, 40))
			return
		}
		c := &GCase{Adj: drawAdj(rt, 12)}
		c.Root = rapid.IntRange(0, len(c.Adj)-1).Draw(rt, "root")
		checkGraph.Run(rt, c)
	}))
}
