package c18

import (
	"fmt"
	"sort"
)

// dfsOrders is the definitional depth-first pre- and post-order from root,
// following adjacency order, with an explicit stack.
func dfsOrders(adj [][]int, root int) (pre, post []int) {
	visited := make([]bool, len(adj))
	type frame struct{ node, next int }
	stack := []frame{{root, 0}}
	visited[root] = true
	pre = append(pre, root)
	for len(stack) > 0 {
		f := &stack[len(stack)-1]
		if f.next < len(adj[f.node]) {
			s := adj[f.node][f.next]
			f.next++
			if !visited[s] {
				visited[s] = true
				pre = append(pre, s)
				stack = append(stack, frame{s, 0})
			}
		} else {
			post = append(post, f.node)
			stack = stack[:len(stack)-1]
		}
	}
	return
}

// reach returns the set of nodes reachable from src (including src) by BFS.
func reach(adj [][]int, src int) []bool {
	seen := make([]bool, len(adj))
	seen[src] = true
	queue := []int{src}
	for len(queue) > 0 {
		u := queue[0]
		queue = queue[1:]
		for _, v := range adj[u] {
			if !seen[v] {
				seen[v] = true
				queue = append(queue, v)
			}
		}
	}
	return seen
}

// components labels every node with the smallest node id of its strongly
// connected component, by Kosaraju's algorithm with explicit stacks.
func components(adj [][]int) []int {
	n := len(adj)
	radj := make([][]int, n)
	for u := range adj {
		for _, v := range adj[u] {
			radj[v] = append(radj[v], u)
		}
	}
	order := make([]int, 0, n)
	seen := make([]bool, n)
	type frame struct{ node, next int }
	for s := 0; s < n; s++ {
		if seen[s] {
			continue
		}
		seen[s] = true
		stack := []frame{{s, 0}}
		for len(stack) > 0 {
			f := &stack[len(stack)-1]
			if f.next < len(adj[f.node]) {
				v := adj[f.node][f.next]
				f.next++
				if !seen[v] {
					seen[v] = true
					stack = append(stack, frame{v, 0})
				}
			} else {
				order = append(order, f.node)
				stack = stack[:len(stack)-1]
			}
		}
	}
	comp := make([]int, n)
	for i := range comp {
		comp[i] = -1
	}
	for i := n - 1; i >= 0; i-- {
		s := order[i]
		if comp[s] != -1 {
			continue
		}
		members := []int{s}
		comp[s] = s
		stack := []int{s}
		for len(stack) > 0 {
			u := stack[len(stack)-1]
			stack = stack[:len(stack)-1]
			for _, v := range radj[u] {
				if comp[v] == -1 {
					comp[v] = s
					members = append(members, v)
					stack = append(stack, v)
				}
			}
		}
		min := s
		for _, m := range members {
			if m < min {
				min = m
			}
		}
		for _, m := range members {
			comp[m] = min
		}
	}
	return comp
}

func sortedCopy(xs []int) []int {
	out := append([]int(nil), xs...)
	sort.Ints(out)
	return out
}

func sameInts(a, b []int) bool {
	if len(a) != len(b) {
		return false
	}
	for i := range a {
		if a[i] != b[i] {
			return false
		}
	}
	return true
}

func copyAdj(adj [][]int) [][]int {
	out := make([][]int, len(adj))
	for i, l := range adj {
		out[i] = append(make([]int, 0, len(l)+2), l...)
	}
	return out
}

func adjEqual(a, b [][]int) bool {
	if len(a) != len(b) {
		return false
	}
	for i := range a {
		if !sameInts(a[i], b[i]) {
			return false
		}
	}
	return true
}

// structured builds a large graph deterministically from its description.
func structured(kind string, n, param int) ([][]int, error) {
	adj := make([][]int, n)
	switch kind {
	case "path":
		for i := 0; i+1 < n; i++ {
			adj[i] = []int{i + 1}
		}
	case "cycle":
		for i := 0; i < n; i++ {
			adj[i] = []int{(i + 1) % n}
		}
	case "tree":
		for i := 0; i < n; i++ {
			for _, c := range []int{2*i + 1, 2*i + 2} {
				if c < n {
					adj[i] = append(adj[i], c)
				}
			}
		}
	case "layers": // DAG of layers of width param, every node to two nodes of the next layer
		w := param
		if w < 1 {
			w = 1
		}
		for i := 0; i < n; i++ {
			layer, pos := i/w, i%w
			for _, d := range []int{0, 1} {
				j := (layer+1)*w + (pos+d)%w
				if j < n {
					adj[i] = append(adj[i], j)
				}
			}
		}
	case "backedges": // a path with a back edge every param nodes
		step := param
		if step < 2 {
			step = 2
		}
		for i := 0; i+1 < n; i++ {
			adj[i] = []int{i + 1}
		}
		for i := step; i < n; i += step {
			adj[i] = append(adj[i], i-step+1)
		}
	case "doubled-path": // every edge of the path twice: each component has a duplicated out-edge
		for i := 0; i+1 < n; i++ {
			adj[i] = []int{i + 1, i + 1}
		}
	case "two-cycles-chain": // 2-cycles chained by two edges each: several members of one component point to the same next component
		for i := 0; i+1 < n; i += 2 {
			adj[i] = append(adj[i], i+1)
			adj[i+1] = append(adj[i+1], i)
			if i+2 < n {
				adj[i] = append(adj[i], i+2)
				adj[i+1] = append(adj[i+1], i+2)
			}
		}
	case "fan": // node i points to i+1 and, twice, to i+step (parallel long edges)
		step := param
		if step < 2 {
			step = 2
		}
		for i := 0; i+1 < n; i++ {
			adj[i] = []int{i + 1}
			if i+step < n {
				adj[i] = append(adj[i], i+step, i+step)
			}
		}
	case "selfloops-path": // a path whose every param-th node (and nodes 1023..1025, 2047..2049) lists a self-loop FIRST
		step := param
		if step < 1 {
			step = 1
		}
		for i := 0; i < n; i++ {
			near := false
			for _, b := range []int{1024, 2048, 4096, 8192, 16384, 32768, 65536} {
				if i >= b-1 && i <= b+1 {
					near = true
				}
			}
			if i%step == 0 || near {
				adj[i] = append(adj[i], i)
			}
			if i+1 < n {
				adj[i] = append(adj[i], i+1)
			}
		}
	case "lcg-random": // sparse pseudo-random multigraph (about two out-edges, self-loops and parallel edges
		// included) over a backbone path, drawn from a linear congruential sequence seeded by param
		x := uint64(param)*2654435761 + 12345
		next := func(m int) int {
			x = x*6364136223846793005 + 1442695040888963407
			return int((x >> 33) % uint64(m))
		}
		for i := 0; i < n; i++ {
			for k := next(4); k > 0; k-- {
				switch next(8) {
				case 0:
					adj[i] = append(adj[i], i)
				case 1:
					if len(adj[i]) > 0 {
						adj[i] = append(adj[i], adj[i][0])
					}
				default:
					adj[i] = append(adj[i], next(n))
				}
			}
			if i+1 < n {
				adj[i] = append(adj[i], i+1)
			}
		}
	case "broom": // node 0 points to every other node (out-degree n-1, beyond 65536 for the largest sizes); node 1 to node 2
		for i := 1; i < n; i++ {
			adj[0] = append(adj[0], i)
		}
		if n > 2 {
			adj[1] = append(adj[1], 2)
		}
	case "reversed-path": // high ids first: node n-1 is the root
		for i := n - 1; i > 0; i-- {
			adj[i] = []int{i - 1}
		}
	default:
		return nil, fmt.Errorf("unknown structured kind %q", kind)
	}
	return adj, nil
}
