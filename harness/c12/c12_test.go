// Package c12 decides property C12: a KDE is a proper probability
// distribution consistent with its kernel formula.
package c12

import (
	"fmt"
	"math"
	"sort"
	"testing"

	"github.com/aclements/go-moremath/stats"
	"pgregory.net/rapid"

	"verifharness/internal/ev"
	"verifharness/internal/gen"
	"verifharness/internal/ref"
)

func TestMain(m *testing.M) { ev.Main(m, "C12") }

func TestReplay(t *testing.T) { ev.Replay(t) }

const (
	kEpan  = 0
	kGauss = 1
	kDelta = 2
)

// Case is one KDE configuration and the points it is probed at.
type Case struct {
	Xs     []float64 `json:"xs"`
	W      []float64 `json:"w,omitempty"`
	Kernel int       `json:"kernel"`
	BW     float64   `json:"bw"`
	Cfg    int       `json:"cfg"` // 0 none, 1 lower, 2 upper, 3 both
	Lo     float64   `json:"lo"`  // used when Cfg is 1 or 3
	Hi     float64   `json:"hi"`  // used when Cfg is 2 or 3
	Probes []float64 `json:"probes"`
	// Sorted hands the sample over in ascending order (weights attached) with its Sorted flag
	// set: a performance hint that must not change any result.
	Sorted bool `json:"sorted,omitempty"`
	// Earlier, if set, is a previous life of the same KDE value: it is first configured with
	// these settings and used (PDF, CDF, Bounds), then its exported fields are re-assigned to
	// the settings of the case - whatever the first use left inside the value must not matter.
	Earlier *Earlier `json:"earlier,omitempty"`
}

// Earlier lists what differed in the previous life of the KDE value (see Case.Earlier).
type Earlier struct {
	W       []float64 `json:"w,omitempty"` // weights then (nil: unweighted); same length as Xs
	InPlace bool      `json:"in_place"`    // the weights slice is overwritten in place instead of replaced
	Kernel  int       `json:"kernel"`
	BW      float64   `json:"bw"`
	Shift   float64   `json:"shift"` // the data then were Xs + Shift
}

func (c *Case) kde() *stats.KDE {
	k := &stats.KDE{Sample: stats.Sample{Xs: append([]float64(nil), c.Xs...)}, Kernel: stats.KDEKernel(c.Kernel), Bandwidth: c.BW}
	if c.W != nil {
		k.Sample.Weights = append([]float64(nil), c.W...)
	}
	if c.Sorted {
		idx := make([]int, len(c.Xs))
		for i := range idx {
			idx[i] = i
		}
		sort.SliceStable(idx, func(a, b int) bool { return c.Xs[idx[a]] < c.Xs[idx[b]] })
		for j, i := range idx {
			k.Sample.Xs[j] = c.Xs[i]
			if c.W != nil {
				k.Sample.Weights[j] = c.W[i]
			}
		}
		k.Sample.Sorted = true
	}
	if e := c.Earlier; e != nil {
		// previous life: other weights / kernel / bandwidth / location, no boundaries
		now := *k
		nowXs, nowW := k.Sample.Xs, k.Sample.Weights
		k.Kernel, k.Bandwidth = stats.KDEKernel(e.Kernel), e.BW
		k.Sample.Xs = make([]float64, len(nowXs))
		for i, x := range nowXs {
			k.Sample.Xs[i] = x + e.Shift
		}
		k.Sample.Weights = nil
		if e.W != nil && len(e.W) == len(nowXs) {
			k.Sample.Weights = append(make([]float64, 0, len(e.W)), e.W...)
		}
		if k.Bandwidth > 0 {
			mid := k.Sample.Xs[0]
			k.PDF(mid)
			k.CDF(mid + k.Bandwidth/2)
			k.PDF(mid - k.Bandwidth)
		}
		// re-assign the exported fields, one by one, to the settings of the case
		k.Kernel, k.Bandwidth = now.Kernel, now.Bandwidth
		copy(k.Sample.Xs, nowXs) // the data change in place
		if e.InPlace && k.Sample.Weights != nil && nowW != nil {
			copy(k.Sample.Weights, nowW)
		} else {
			k.Sample.Weights = nowW
		}
		k.Sample.Sorted = now.Sample.Sorted
	}
	switch c.Cfg {
	case 1:
		k.BoundaryMin, k.BoundaryMax = c.Lo, math.Inf(1)
	case 2:
		k.BoundaryMin, k.BoundaryMax = math.Inf(-1), c.Hi
	case 3:
		k.BoundaryMin, k.BoundaryMax = c.Lo, c.Hi
	}
	return k
}

// model is the independent evaluation of the kernel average.
type model struct {
	xs, w  []float64
	wsum   float64
	kernel int
	h      float64
}

func (m *model) kpdf(u float64) float64 { // kernel density at distance u
	switch m.kernel {
	case kGauss:
		z := u / m.h
		return math.Exp(-z*z/2) / (m.h * math.Sqrt(2*math.Pi))
	case kEpan:
		z := u / m.h
		if z <= -1 || z >= 1 {
			return 0
		}
		return 0.75 * (1 - z*z) / m.h
	}
	return math.NaN()
}

func (m *model) kcdf(u float64) float64 {
	switch m.kernel {
	case kGauss:
		return ref.NormCDF(u / m.h)
	case kEpan:
		z := u / m.h
		if z <= -1 {
			return 0
		}
		if z >= 1 {
			return 1
		}
		return 0.25 * (2 + 3*z - z*z*z)
	default: // delta: unit step
		if u >= 0 {
			return 1
		}
		return 0
	}
}

func (m *model) f(x float64) float64 {
	s := 0.0
	for i, xi := range m.xs {
		s += m.w[i] * m.kpdf(x-xi)
	}
	return s / m.wsum
}

func (m *model) F(x float64) float64 {
	s := 0.0
	for i, xi := range m.xs {
		s += m.w[i] * m.kcdf(x-xi)
	}
	return s / m.wsum
}

// reach is the distance beyond which the kernel contributes nothing (below 1e-30).
func (m *model) reach() float64 {
	switch m.kernel {
	case kGauss:
		return 12 * m.h
	case kEpan:
		return m.h
	}
	return 0
}

var checkKDE = ev.Register("kde", func(c *Case) ev.Outcome {
	n := len(c.Xs)
	if n < 1 || !(c.BW > 1e-100 && c.BW < 1e100) || (c.W != nil && len(c.W) != n) {
		return ev.Fail("harness error: case")
	}
	mn, mx := c.Xs[0], c.Xs[0]
	for _, x := range c.Xs {
		mn, mx = math.Min(mn, x), math.Max(mx, x)
	}
	a, b := math.Inf(-1), math.Inf(1)
	if c.Cfg == 1 || c.Cfg == 3 {
		a = c.Lo
	}
	if c.Cfg == 2 || c.Cfg == 3 {
		b = c.Hi
	}
	if !(a <= mn && mx < b) {
		return ev.Fail("harness error: data outside the boundaries")
	}
	if c.Cfg == 3 && a == 0 && b == 0 {
		return ev.Fail("harness error: both boundaries zero means 'unset'")
	}
	m := &model{xs: c.Xs, kernel: c.Kernel, h: c.BW}
	m.w = c.W
	if m.w == nil {
		m.w = make([]float64, n)
		for i := range m.w {
			m.w[i] = 1
		}
	}
	for _, w := range m.w {
		if !(w > 0) {
			return ev.Fail("harness error: weights must be positive")
		}
		m.wsum += w
	}
	L := b - a
	// number of images needed on each side for the doubly bounded case
	M := 0
	if c.Cfg == 3 {
		M = int(math.Ceil((m.reach()+L)/(2*L))) + 1
		if M > 200000 {
			return ev.Fail("harness error: support much narrower than the bandwidth (cost, not correctness)")
		}
	}
	foldedPDF := func(x float64) float64 {
		switch c.Cfg {
		case 0:
			return m.f(x)
		case 1:
			return m.f(x) + m.f(2*a-x)
		case 2:
			return m.f(x) + m.f(2*b-x)
		}
		s := 0.0
		for k := -M; k <= M; k++ {
			s += m.f(x+2*float64(k)*L) + m.f(2*a-x+2*float64(k)*L)
		}
		return s
	}
	foldedCDF := func(x float64) float64 {
		switch c.Cfg {
		case 0:
			return m.F(x)
		case 1:
			return m.F(x) - m.F(2*a-x)
		case 2:
			return m.F(x) + 1 - m.F(2*b-x)
		}
		s := 0.0
		for k := -M; k <= M; k++ {
			s += m.F(x+2*float64(k)*L) - m.F(2*a-x+2*float64(k)*L)
		}
		return s
	}

	// Delta kernel with a boundary within rounding of a data point: the images x+n*d-w are
	// computed in floating point and the step kernel turns a one-ulp error into a whole
	// point mass (signature of the recorded finding kde-delta-touching-boundary).
	deltaTouching, knownHit := false, false
	if c.Kernel == kDelta && c.Cfg != 0 {
		for _, x := range c.Xs {
			if math.Abs(x-a) <= 8*ref.Ulp(a) || math.Abs(b-x) <= 8*ref.Ulp(b) {
				deltaTouching = true
			}
		}
	}
	k := c.kde()
	probes := append([]float64(nil), c.Probes...)
	// always probe the ends of the support and the data points
	if c.Cfg == 1 || c.Cfg == 3 {
		probes = append(probes, a, math.Nextafter(a, math.Inf(-1)), a-1)
	}
	if c.Cfg == 2 || c.Cfg == 3 {
		probes = append(probes, b, math.Nextafter(b, math.Inf(-1)), b+1)
	}
	probes = append(probes, mn, mx)
	sort.Float64s(probes)
	tolF := 1e-9
	if c.Cfg == 0 {
		tolF = 1e-12
	}
	scalePDF := 1 / c.BW
	prev := 0.0
	cdfs := make([]float64, len(probes))
	for i, x := range probes {
		got := k.CDF(x)
		cdfs[i] = got
		var want float64
		switch {
		case x < a:
			want = 0
		case x >= b:
			want = 1
		default:
			want = foldedCDF(x)
		}
		if !(math.Abs(got-want) <= tolF) {
			if deltaTouching {
				// known finding: see KNOWN_FINDINGS.txt (step kernel + image arithmetic at a
				// boundary within rounding of a data point)
				knownHit = true
				continue
			}
			return ev.Fail("CDF(%v) = %.15g, kernel formula gives %.15g", x, got, want)
		}
		ev.MaxErr("cdf", math.Abs(got-want)/tolF)
		if (x < a && got != 0) || (x >= b && got != 1) {
			return ev.Fail("CDF(%v) = %v outside the support [%v,%v)", x, got, a, b)
		}
		if c.Cfg != 0 && x == a && math.Abs(got) > 1e-15 && c.Kernel != kDelta {
			return ev.Fail("CDF(BoundaryMin) = %v, want 0", got)
		}
		if got < prev-1e-12 && !deltaTouching {
			return ev.Fail("CDF decreases: CDF(%v) = %.17g after %.17g", x, got, prev)
		}
		if got > prev {
			prev = got
		}
		if !(got >= -1e-15 && got <= 1+1e-12) && !deltaTouching {
			return ev.Fail("CDF(%v) = %.17g outside [0,1]", x, got)
		}
		if c.Kernel == kDelta {
			continue // the density of the delta kernel is not defined
		}
		p := k.PDF(x)
		wantP := 0.0
		if x >= a && x < b {
			wantP = foldedPDF(x)
		}
		if !(math.Abs(p-wantP) <= tolF*scalePDF+1e-12*wantP) {
			return ev.Fail("PDF(%v) = %.15g, kernel formula gives %.15g", x, p, wantP)
		}
		ev.MaxErr("pdf", math.Abs(p-wantP)/(tolF*scalePDF+1e-12*wantP))
		if !(p >= 0) {
			return ev.Fail("PDF(%v) = %v is negative", x, p)
		}
		if (x < a || x >= b) && p != 0 {
			return ev.Fail("PDF(%v) = %v outside the support [%v,%v)", x, p, a, b)
		}
	}
	classes := []string{[]string{"epanechnikov", "gaussian", "delta"}[c.Kernel], []string{"unbounded", "lower-bound", "upper-bound", "both-bounds"}[c.Cfg]}
	if (c.Cfg == 1 || c.Cfg == 3) && a == 0 || (c.Cfg == 2 || c.Cfg == 3) && b == 0 {
		classes = append(classes, "boundary-at-zero")
	}
	if c.W != nil {
		classes = append(classes, "weighted")
		if c.Sorted {
			classes = append(classes, "weighted-sorted-flag")
		}
	}
	if c.Earlier != nil {
		classes = append(classes, "kde-value-reused")
	}
	if c.Kernel != kDelta {
		// integral of the density between consecutive probes, panels split at the kinks
		var kinks []float64
		if c.Kernel == kEpan {
			for _, xi := range c.Xs {
				for _, e := range []float64{xi - c.BW, xi + c.BW} {
					for kk := -M; kk <= M; kk++ {
						sh := 0.0
						if c.Cfg == 3 {
							sh = 2 * float64(kk) * L
						}
						kinks = append(kinks, e+sh)
						if c.Cfg == 1 || c.Cfg == 3 {
							kinks = append(kinks, 2*a-e+sh)
						}
						if c.Cfg == 2 {
							kinks = append(kinks, 2*b-e)
						}
					}
				}
			}
		}
		if len(kinks) <= 4000 {
			for i := 1; i < len(probes); i++ {
				lo, hi := math.Max(probes[i-1], a), math.Min(probes[i], math.Nextafter(b, math.Inf(-1)))
				if !(hi > lo) || (hi-lo)/c.BW > 400 {
					continue
				}
				integ := ref.GaussLegendreBreaks(k.PDF, lo, hi, c.BW/2, kinks)
				want := k.CDF(hi) - k.CDF(lo)
				// quadrature nodes are rounded to the float grid: ulp/bandwidth kernel units each
				tolI := 1e-8 + 8*ref.Ulp(math.Max(math.Abs(lo), math.Abs(hi)))/c.BW*float64(n)
				if !(math.Abs(integ-want) <= tolI) {
					return ev.Fail("integral of PDF over [%v,%v] = %.12g, CDF difference %.12g (tol %.3g)", lo, hi, integ, want, tolI)
				}
				ev.MaxErr("integral", math.Abs(integ-want)/tolI)
			}
			classes = append(classes, "integral-checked")
		}
		// total mass on the support
		lo, hi := mn-m.reach(), mx+m.reach()
		if c.Cfg == 1 || c.Cfg == 3 {
			lo = a
		}
		if c.Cfg == 2 || c.Cfg == 3 {
			hi = math.Nextafter(b, math.Inf(-1))
		}
		if c.Cfg == 1 {
			hi = mx + m.reach() + (mn - a) + m.reach()
		}
		if c.Cfg == 2 {
			lo = mn - m.reach() - (b - mx) - m.reach()
		}
		// hi is one ulp inside BoundaryMax: the density (at most about 1/min(bandwidth, support))
		// times that ulp is missing from the mass
		dens := 1 / c.BW
		if c.Cfg == 3 {
			dens = math.Max(dens, 1/L)
		}
		if mass := k.CDF(hi) - k.CDF(lo); !(math.Abs(mass-1) <= 1e-9+8*ref.Ulp(math.Abs(hi)+math.Abs(lo))*dens) {
			return ev.Fail("total mass on the support [%v,%v] is %.15g", lo, hi, mass)
		}
		// Bounds
		// Bounds searches by expanding a bracket and bisecting: it must come back
		var bl, bh float64
		ev.Watchdog("KDE.Bounds", func() { bl, bh = k.Bounds() })
		if math.IsNaN(bl) || math.IsNaN(bh) || math.IsInf(bl, 0) || math.IsInf(bh, 0) || !(bl <= bh) {
			return ev.Fail("Bounds = %v,%v", bl, bh)
		}
		if bl < a || bh > b {
			return ev.Fail("Bounds = %v,%v leave the boundaries [%v,%v]", bl, bh, a, b)
		}
		inside := k.CDF(bh) - k.CDF(bl)
		if bh >= b { // CDF jumps to 1 at BoundaryMax; take the limit from the left
			inside = k.CDF(math.Nextafter(b, math.Inf(-1))) - k.CDF(bl)
		}
		if !(inside >= 0.98) {
			return ev.Fail("Bounds = %v,%v hold only %.6g of the mass", bl, bh, inside)
		}
	}
	if c.Kernel == kDelta && !deltaTouching {
		// Bounds of a step distribution: the mass of the closed interval is the weight of the
		// sample values in it (the images of the reflection lie outside the support)
		// Bounds searches by expanding a bracket and bisecting: it must come back
		var bl, bh float64
		ev.Watchdog("KDE.Bounds", func() { bl, bh = k.Bounds() })
		if math.IsNaN(bl) || math.IsNaN(bh) || math.IsInf(bl, 0) || math.IsInf(bh, 0) || !(bl <= bh) {
			return ev.Fail("Bounds = %v,%v", bl, bh)
		}
		if bl < a || bh > b {
			return ev.Fail("Bounds = %v,%v leave the boundaries [%v,%v]", bl, bh, a, b)
		}
		in, tot := 0.0, 0.0
		for i, x := range c.Xs {
			w := 1.0
			if c.W != nil {
				w = c.W[i]
			}
			tot += w
			if x >= bl && x <= bh {
				in += w
			}
		}
		if !(in >= 0.98*tot) {
			return ev.Fail("Bounds = %.17g,%.17g hold only %.6g of the mass (delta kernel: weight of the sample values inside)", bl, bh, in/tot)
		}
		classes = append(classes, "delta-bounds-checked")
		if mn == mx {
			classes = append(classes, "delta-bounds-single-atom")
		}
	}
	distinct := mn != mx
	out := ev.OK(n >= 2 && distinct && (c.Cfg != 0 || c.W != nil), classes...)
	if knownHit {
		out.Known = "kde-delta-touching-boundary"
	}
	return out
})

// ---------------------------------------------------------------- bandwidth rules

type BWCase struct {
	Xs []float64 `json:"xs"`
}

var checkBW = ev.Register("bandwidth", func(c *BWCase) ev.Outcome {
	n := len(c.Xs)
	if n < 2 {
		return ev.Fail("harness error: n")
	}
	asc := append([]float64(nil), c.Xs...)
	sort.Float64s(asc)
	sd := ref.F64(ref.Sqrt(ref.Variance(c.Xs)))
	q := func(p float64) float64 { // type-8 quantile, as C10 defines it
		h := (float64(n)+1.0/3)*p + 1.0/3
		k := int(math.Floor(h))
		if k <= 0 {
			return asc[0]
		}
		if k >= n {
			return asc[n-1]
		}
		return asc[k-1] + (h-float64(k))*(asc[k]-asc[k-1])
	}
	iqr := q(0.75) - q(0.25)
	if iqr == 0 && sd > 0 {
		// the formulas still apply: min(s, 0/1.349) = 0. (A KDE cannot use that bandwidth, so
		// only the two rules are checked.)
		scale := 1.06 * math.Pow(float64(n), -0.2)
		s := stats.Sample{Xs: append([]float64(nil), c.Xs...)}
		if got := stats.BandwidthScott(s); got != 0 {
			return ev.Fail("BandwidthScott = %v for a sample with IQR 0 and s = %v; 1.06*min(s,IQR/1.349)*n^(-1/5) = 0", got, sd)
		}
		kappa := 1 + math.Abs(ref.F64(ref.Mean(c.Xs)))/sd
		if got, want := stats.BandwidthSilverman(s), scale*sd; !(math.Abs(got-want) <= (1e-12+16*float64(n)*ref.Eps*kappa)*want) {
			return ev.Fail("BandwidthSilverman = %.15g, want %.15g", got, want)
		}
		return ev.OK(true, "iqr-zero")
	}
	if !(iqr > 0) {
		return ev.OK(false, "constant-sample")
	}
	if sd < 1e-9*math.Max(1, absMaxOf(c.Xs)) {
		// spread at the rounding level of the data: the selected bandwidth underflows
		return ev.OK(false, "degenerate-spread-outside-property")
	}
	scale := 1.06 * math.Pow(float64(n), -0.2)
	s := stats.Sample{Xs: append([]float64(nil), c.Xs...)}
	wantSil := scale * sd
	wantScott := scale * math.Min(sd, iqr/1.349)
	// the library's standard deviation carries a relative error of about n*eps*(1+|mean|/s)
	kappa := 1 + math.Abs(ref.F64(ref.Mean(c.Xs)))/sd
	tol := func(w float64) float64 { return (1e-12 + 16*float64(n)*ref.Eps*kappa) * w }
	if got := stats.BandwidthSilverman(s); !(math.Abs(got-wantSil) <= tol(wantSil)) {
		return ev.Fail("BandwidthSilverman = %.15g, want 1.06*s*n^(-1/5) = %.15g", got, wantSil)
	}
	// The IQR is a difference of two interpolated order statistics: each carries the rounding
	// of its value (eps*|x|) and of the interpolation position h (eps*h times the local gap
	// between order statistics), however h is evaluated; with an IQR far smaller than the
	// data these absolute errors are what limits it, not a relative one.
	gapAt := func(p float64) float64 {
		h := (float64(n)+1.0/3)*p + 1.0/3
		k := int(math.Floor(h))
		g := 0.0
		for j := k - 2; j <= k+1; j++ {
			if j >= 0 && j+1 < n {
				g = math.Max(g, asc[j+1]-asc[j])
			}
		}
		return g
	}
	iqrTol := 16 * ref.Eps * (float64(n)*(gapAt(0.25)+gapAt(0.75)) + absMaxOf(c.Xs))
	if got := stats.BandwidthScott(s); !(math.Abs(got-wantScott) <= tol(wantScott)+scale*iqrTol/1.349) {
		return ev.Fail("BandwidthScott = %.15g, want 1.06*min(s,IQR/1.349)*n^(-1/5) = %.15g (s=%v IQR=%v)", got, wantScott, sd, iqr)
	}
	// a zero Bandwidth selects Scott's rule
	k0 := &stats.KDE{Sample: stats.Sample{Xs: append([]float64(nil), c.Xs...)}, Kernel: stats.GaussianKernel}
	k1 := &stats.KDE{Sample: stats.Sample{Xs: append([]float64(nil), c.Xs...)}, Kernel: stats.GaussianKernel, Bandwidth: stats.BandwidthScott(s)}
	x := asc[n/2]
	if a, b := k0.PDF(x), k1.PDF(x); a != b {
		return ev.Fail("zero Bandwidth: PDF(%v) = %v, with Scott's bandwidth set explicitly %v", x, a, b)
	}
	if k0.Bandwidth != k1.Bandwidth {
		return ev.Fail("zero Bandwidth was filled with %v, Scott's rule gives %v", k0.Bandwidth, k1.Bandwidth)
	}
	cl := "scott-uses-iqr"
	if sd < iqr/1.349 {
		cl = "scott-uses-sd"
	}
	return ev.OK(true, cl)
})

// ---------------------------------------------------------------- generators

const rule = "KDE: rapid-generated samples (1..40 values with repeats, optional positive weights), kernel in {Epanechnikov, Gaussian, " +
	"Delta}, bandwidth = spread*log-uniform[0.02,50], boundaries none/lower/upper/both with each gap 0 (touching) or " +
	"spread*log-uniform[1e-3,100], data inside the boundaries and support >= one spread; probes inside, at and beyond the support. " +
	"Oracle: independently summed kernel average, folded at the boundaries by an explicit image sum (1e-12 unbounded, 1e-9 bounded); " +
	"zero outside; CDF 0 at BoundaryMin and 1 from BoundaryMax; PDF>=0; CDF monotone; Gauss-Legendre integral of PDF (panels split " +
	"at every kink image) = CDF difference (1e-8); total mass 1; Bounds finite, inside, >=98% of the mass; bandwidth rules vs the " +
	"formulas. Non-trivial: >=2 distinct values and a boundary or weights present. distinct = canonical JSON. Later additions: Bounds of the delta kernel by the weight of the sample values inside (under a watchdog), round bandwidths (1 above all), Sorted flag, a KDE value with an earlier life."

func drawCase(t *rapid.T) *Case {
	c := &Case{}
	n := rapid.IntRange(1, 40).Draw(t, "n")
	if rapid.Bool().Draw(t, "small") {
		n = rapid.IntRange(1, 6).Draw(t, "nsmall")
	}
	centre := rapid.Float64Range(-100, 100).Draw(t, "centre")
	if rapid.IntRange(0, 3).Draw(t, "centreZero") == 0 {
		centre = 0
	}
	width := gen.LogUniform(t, 0.01, 100, "width")
	for i := 0; i < n; i++ {
		if i > 0 && rapid.IntRange(0, 3).Draw(t, "repeat") == 0 {
			c.Xs = append(c.Xs, c.Xs[rapid.IntRange(0, i-1).Draw(t, "which")])
		} else {
			// quantised so that two values are either equal or at least 1e-6 widths apart
			// (rapid's floats include values like 1e-270, which would put the bandwidth
			// where its square underflows)
			u := math.Round(rapid.Float64Range(-1, 1).Draw(t, "x")*1e6) / 1e6
			c.Xs = append(c.Xs, centre+width*u)
		}
	}
	mn, mx := c.Xs[0], c.Xs[0]
	for _, x := range c.Xs {
		mn, mx = math.Min(mn, x), math.Max(mx, x)
	}
	spread := mx - mn
	if spread == 0 {
		spread = 1
	}
	if rapid.Bool().Draw(t, "weighted") {
		for range c.Xs {
			c.W = append(c.W, rapid.Float64Range(0.1, 5).Draw(t, "w"))
		}
	}
	c.Kernel = rapid.SampledFrom([]int{kGauss, kEpan, kEpan, kGauss, kDelta}).Draw(t, "kernel")
	c.BW = spread * gen.LogUniform(t, 0.02, 50, "bw")
	if rapid.IntRange(0, 5).Draw(t, "roundBW") == 0 {
		// a round bandwidth, 1 above all (the unit kernel is the natural fast path of an
		// implementation), where it lies within the stated 0.02..50 spreads
		if b := rapid.SampledFrom([]float64{1, 1, 0.5, 2, 0.25, 10, 0.1, 4}).Draw(t, "bwValue"); b >= 0.02*spread && b <= 50*spread {
			c.BW = b
		}
	}
	c.Cfg = rapid.SampledFrom([]int{3, 1, 2, 0, 3}).Draw(t, "cfg")
	gap := func(label string) float64 {
		if rapid.IntRange(0, 2).Draw(t, label+".touch") == 0 {
			return 0
		}
		return spread * gen.LogUniform(t, 1e-3, 100, label)
	}
	if c.Cfg == 1 || c.Cfg == 3 {
		c.Lo = mn - gap("gapLo")
	}
	if c.Cfg == 2 || c.Cfg == 3 {
		c.Hi = mx + gap("gapHi")
		if !(c.Hi > mx) {
			c.Hi = math.Nextafter(mx, math.Inf(1)) // support is [lo,hi): the data must be below hi
		}
	}
	if c.Cfg == 3 && c.Hi-c.Lo < spread {
		c.Hi = c.Lo + spread*1.5
	}
	// a boundary at exactly 0 is a boundary like any other as long as the other one is set
	// (to a finite value or to +/-Inf): translate everything so that it is
	if c.Cfg != 0 && rapid.IntRange(0, 4).Draw(t, "zeroBoundary") == 0 {
		shift := c.Lo
		if c.Cfg == 2 || (c.Cfg == 3 && rapid.Bool().Draw(t, "zeroUpper")) {
			shift = c.Hi
		}
		for i := range c.Xs {
			c.Xs[i] -= shift
		}
		if c.Cfg == 1 || c.Cfg == 3 {
			c.Lo -= shift
		}
		if c.Cfg == 2 || c.Cfg == 3 {
			c.Hi -= shift
		}
		mn, mx = mn-shift, mx-shift
		// re-establish data inside [lo, hi) after the rounding of the translation
		for i, x := range c.Xs {
			if (c.Cfg == 1 || c.Cfg == 3) && x < c.Lo {
				c.Xs[i] = c.Lo
			}
			if (c.Cfg == 2 || c.Cfg == 3) && !(x < c.Hi) {
				c.Xs[i] = math.Nextafter(c.Hi, math.Inf(-1))
			}
		}
		mn, mx = c.Xs[0], c.Xs[0]
		for _, x := range c.Xs {
			mn, mx = math.Min(mn, x), math.Max(mx, x)
		}
	}
	np := rapid.IntRange(2, 8).Draw(t, "nprobes")
	for i := 0; i < np; i++ {
		switch rapid.IntRange(0, 3).Draw(t, "pkind") {
		case 0:
			c.Probes = append(c.Probes, c.Xs[rapid.IntRange(0, n-1).Draw(t, "at")]+c.BW*rapid.Float64Range(-1.5, 1.5).Draw(t, "pz"))
		case 1:
			c.Probes = append(c.Probes, mn+spread*rapid.Float64Range(-0.5, 1.5).Draw(t, "pu"))
		case 2:
			c.Probes = append(c.Probes, mn-c.BW*rapid.Float64Range(0, 6).Draw(t, "pl"))
		default:
			c.Probes = append(c.Probes, mx+c.BW*rapid.Float64Range(0, 6).Draw(t, "ph"))
		}
	}
	return c
}

func TestKDE(t *testing.T) {
	ev.Rule(rule)
	ev.Rapid(t, "c12-kde", 12000, 96000, func(rt *rapid.T) {
		c := drawCase(rt)
		c.Sorted = rapid.IntRange(0, 2).Draw(rt, "sortedFlag") == 0
		if rapid.IntRange(0, 2).Draw(rt, "reused") == 0 {
			e := &Earlier{Kernel: c.Kernel, BW: c.BW}
			switch rapid.IntRange(0, 3).Draw(rt, "earlierDiffers") {
			case 0: // only the weights differ (other values, or none then / none now)
				if rapid.Bool().Draw(rt, "earlierWeighted") || c.W == nil {
					for range c.Xs {
						e.W = append(e.W, float64(rapid.IntRange(1, 9).Draw(rt, "ew")))
					}
				}
				e.InPlace = rapid.Bool().Draw(rt, "weightsInPlace")
			case 1: // the kernel
				e.Kernel = (c.Kernel + 1 + rapid.IntRange(0, 1).Draw(rt, "ek")) % 3
			case 2: // the bandwidth
				e.BW = c.BW * rapid.SampledFrom([]float64{2, 0.5, 1.25}).Draw(rt, "ebw")
			default: // the data (same length)
				e.Shift = c.BW * rapid.SampledFrom([]float64{1, -3, 0.25}).Draw(rt, "eshift")
			}
			c.Earlier = e
		}
		checkKDE.Run(rt, c)
	})
}

// TestKnownWitness replays the recorded input of the known finding
// kde-delta-touching-boundary on every run, so that its KNOWN-FINDING line reports at least
// one hit while the defect is present (and none once it is repaired).
func TestKnownWitness(t *testing.T) {
	if ev.Replaying() {
		return
	}
	x := 2.718281828459045
	checkKDE.Run(t, &Case{Xs: []float64{x, x, x, x, x, -1.3591409142295225}, W: []float64{1, 1, 1, 1, 1, 1}, Kernel: kDelta, BW: 11.083584148395975,
		Cfg: 3, Lo: -1.3591409142295225, Hi: math.Nextafter(x, math.Inf(1)), Probes: []float64{4.756993199803329, x}})
}

func TestBandwidth(t *testing.T) {
	ev.Rule(rule)
	ev.Rapid(t, "c12-bandwidth", 4000, 64000, func(rt *rapid.T) {
		n := rapid.IntRange(2, 60).Draw(rt, "n")
		c := &BWCase{}
		centre := rapid.Float64Range(-1000, 1000).Draw(rt, "centre")
		width := gen.LogUniform(rt, 0.01, 100, "width")
		outliers := rapid.Bool().Draw(rt, "outliers")
		tieHeavy := rapid.IntRange(0, 4).Draw(rt, "tieHeavy") == 0 // most values identical: quartiles coincide
		for i := 0; i < n; i++ {
			if tieHeavy && rapid.IntRange(0, 5).Draw(rt, "tied") != 0 {
				c.Xs = append(c.Xs, centre)
				continue
			}
			x := centre + width*math.Round(rapid.Float64Range(-1, 1).Draw(rt, "x")*1e6)/1e6
			if outliers && i%7 == 0 {
				x += width * 50 // heavy tails make IQR/1.349 the smaller scale
			}
			c.Xs = append(c.Xs, x)
		}
		checkBW.Run(rt, c)
	})
}

func absMaxOf(xs []float64) float64 {
	m := 0.0
	for _, x := range xs {
		m = math.Max(m, math.Abs(x))
	}
	return m
}

var _ = fmt.Sprint
