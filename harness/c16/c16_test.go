// Package c16 decides property C16: Linear and Log scales map the domain onto
// [0,1] invertibly; QQ composes them.
package c16

import (
	"errors"
	"math"
	"sort"
	"testing"

	"github.com/aclements/go-moremath/scale"
	"pgregory.net/rapid"

	"verifharness/internal/ev"
	"verifharness/internal/gen"
	"verifharness/internal/ref"
)

func TestMain(m *testing.M) { ev.Main(m, "C16") }

func TestReplay(t *testing.T) { ev.Replay(t) }

const cT = 16.0

// ---------------------------------------------------------------- Linear

type LinCase struct {
	Min float64   `json:"min"`
	Max float64   `json:"max"`
	Xs  []float64 `json:"xs"`
	Ys  []float64 `json:"ys"`
}

var checkLinear = ev.Register("linear", func(c *LinCase) ev.Outcome {
	s := scale.Linear{Min: c.Min, Max: c.Max}
	cl := scale.Linear{Min: c.Min, Max: c.Max}
	cl.SetClamp(true)
	if !cl.Clamp {
		return ev.Fail("SetClamp(true) had no effect")
	}
	if c.Min == c.Max {
		for _, x := range c.Xs {
			if s.Map(x) != 0.5 || cl.Map(x) != 0.5 {
				return ev.Fail("degenerate domain: Map(%v) = %v", x, s.Map(x))
			}
		}
		return ev.OK(false, "linear-degenerate")
	}
	if s.Map(c.Min) != 0 || s.Map(c.Max) != 1 {
		return ev.Fail("Map(Min), Map(Max) = %v, %v", s.Map(c.Min), s.Map(c.Max))
	}
	w := c.Max - c.Min
	aw := math.Abs(w)
	mag := math.Abs(c.Min) + math.Abs(c.Max)
	xs := append([]float64(nil), c.Xs...)
	sort.Float64s(xs)
	prevX, prevY := math.NaN(), math.NaN()
	nt := false
	for _, x := range xs {
		y := s.Map(x)
		want := ref.F64(ref.Quo(ref.Sub(ref.B(x), ref.B(c.Min)), ref.Sub(ref.B(c.Max), ref.B(c.Min))))
		tol := cT * ref.Eps * (math.Abs(x) + mag) / aw
		if !(math.Abs(y-want) <= tol) {
			return ev.Fail("Map(%v) = %.17g, (x-Min)/(Max-Min) = %.17g (tol %.3g)", x, y, want, tol)
		}
		ev.MaxErr("linear-map", math.Abs(y-want)/tol)
		// monotone: increasing when Max>Min, decreasing otherwise
		if !math.IsNaN(prevX) {
			dy := y - prevY
			if w < 0 {
				dy = -dy
			}
			if dy < 0 {
				return ev.Fail("Map not monotone: Map(%v) = %.17g, Map(%v) = %.17g", prevX, prevY, x, y)
			}
			if x-prevX > 1e-9*aw && x-prevX > 8*ref.Eps*(math.Abs(x)+mag) && !(dy > 0) {
				return ev.Fail("Map not strictly monotone: Map(%v) = Map(%v) = %.17g", prevX, x, y)
			}
		}
		prevX, prevY = x, y
		back := s.Unmap(y)
		if tolX := cT * ref.Eps * (math.Abs(x) + mag); !(math.Abs(back-x) <= tolX) {
			return ev.Fail("Unmap(Map(%v)) = %.17g (tol %.3g)", x, back, tolX)
		} else {
			ev.MaxErr("linear-roundtrip", math.Abs(back-x)/tolX)
		}
		yc := cl.Map(x)
		switch {
		case y < 0:
			if yc != 0 {
				return ev.Fail("clamped Map(%v) = %v, want 0", x, yc)
			}
		case y > 1:
			if yc != 1 {
				return ev.Fail("clamped Map(%v) = %v, want 1", x, yc)
			}
		default:
			if yc != y {
				return ev.Fail("clamped Map(%v) = %v differs from the unclamped %v inside the domain", x, yc, y)
			}
		}
		if x != c.Min && x != c.Max {
			nt = true
		}
	}
	for _, y := range c.Ys {
		x := s.Unmap(y)
		want := ref.F64(ref.Add(ref.Mul(ref.B(y), ref.Sub(ref.B(c.Max), ref.B(c.Min))), ref.B(c.Min)))
		tol := cT * ref.Eps * (math.Abs(y)*aw + mag)
		if !(math.Abs(x-want) <= tol) {
			return ev.Fail("Unmap(%v) = %.17g, y*(Max-Min)+Min = %.17g", y, x, want)
		}
		if cx := cl.Unmap(y); cx != x {
			return ev.Fail("Unmap depends on Clamp: %v vs %v", cx, x)
		}
		y2 := s.Map(x)
		if tolY := cT * ref.Eps * (math.Abs(y) + mag/aw) * 2; !(math.Abs(y2-y) <= tolY) {
			return ev.Fail("Map(Unmap(%v)) = %.17g (tol %.3g)", y, y2, tolY)
		}
	}
	cls := "linear-increasing"
	if w < 0 {
		cls = "linear-decreasing"
	}
	return ev.OK(nt, cls)
})

// ---------------------------------------------------------------- Log

type LogCase struct {
	Min  float64   `json:"min"`
	Max  float64   `json:"max"`
	Base int       `json:"base"`
	Xs   []float64 `json:"xs"`
	Ys   []float64 `json:"ys"`
	// EarlierMin/EarlierMax, if not both zero, are a previous life of the same scale value: it
	// is built by NewLog on that domain and used (Map, Unmap, Nice), then its Min and Max are
	// re-assigned to those of the case; what the first use left in the value must not matter.
	EarlierMin float64 `json:"earlier_min,omitempty"`
	EarlierMax float64 `json:"earlier_max,omitempty"`
	// Decreasing: the scale under test is the keyed literal Log{Min: the larger, Max: the
	// smaller end} - NewLog orders its arguments, so a decreasing Log domain only arises this way
	// (or by assigning the fields), and the statement covers both orders.
	Decreasing bool `json:"decreasing,omitempty"`
}

func lnAbs(x float64) float64 { return ref.F64(ref.Ln(ref.B(math.Abs(x)))) }

var checkLog = ev.Register("log", func(c *LogCase) ev.Outcome {
	s, err := scale.NewLog(c.Min, c.Max, c.Base)
	if err != nil {
		return ev.Fail("harness error: NewLog(%v,%v,%d): %v", c.Min, c.Max, c.Base, err)
	}
	lo, hi := math.Min(c.Min, c.Max), math.Max(c.Min, c.Max)
	if s.Min != lo || s.Max != hi || s.Base != c.Base {
		return ev.Fail("NewLog(%v,%v,%d) = {Min:%v Max:%v Base:%d}", c.Min, c.Max, c.Base, s.Min, s.Max, s.Base)
	}
	if c.EarlierMin != 0 || c.EarlierMax != 0 {
		if s2, err2 := scale.NewLog(c.EarlierMin, c.EarlierMax, c.Base); err2 == nil {
			s2.Map(s2.Min)
			s2.Unmap(0.25)
			if c.EarlierMin != c.EarlierMax {
				(&s2).Nice(scale.TickOptions{Max: 5})
				s2.Map(s2.Max)
			}
			s2.Min, s2.Max = s.Min, s.Max
			s = s2
		}
	}
	dir := 1.0
	if c.Decreasing {
		s.Min, s.Max = hi, lo
		if c.EarlierMin == 0 && c.EarlierMax == 0 {
			s = scale.Log{Min: hi, Max: lo, Base: c.Base}
		}
		lo, hi = hi, lo // from here on: lo is the scale's Min, hi its Max
		dir = -1
	}
	neg := lo < 0
	cl := s
	(&cl).SetClamp(true)
	if !cl.Clamp || s.Clamp {
		return ev.Fail("SetClamp")
	}
	// wrong sign and zero, clamped or not
	for _, bad := range []float64{0, -lo, -hi, math.Copysign(1, -lo)} {
		if v, vc := s.Map(bad), cl.Map(bad); !math.IsNaN(v) || !math.IsNaN(vc) {
			return ev.Fail("Map(%v) = %v (clamped: %v) on the domain [%v,%v], want NaN", bad, v, vc, lo, hi)
		}
	}
	if lo == hi {
		// inside, at and beyond the single point, clamped or not
		for _, x := range append(append([]float64(nil), c.Xs...), lo, lo*2, lo/2, math.Nextafter(lo, 0), math.Nextafter(lo, 2*lo)) {
			if (x < 0) == neg && x != 0 {
				if s.Map(x) != 0.5 || cl.Map(x) != 0.5 {
					return ev.Fail("degenerate domain: Map(%v) = %v, clamped %v", x, s.Map(x), cl.Map(x))
				}
			}
		}
		return ev.OK(false, "log-degenerate")
	}
	lmin, lmax := lnAbs(lo), lnAbs(hi)
	lw := math.Abs(lmax - lmin)
	lmag := math.Abs(lmin) + math.Abs(lmax)
	if a, b := s.Map(lo), s.Map(hi); !(math.Abs(a) <= 1e-12 && math.Abs(b-1) <= 1e-12) {
		return ev.Fail("Map(Min), Map(Max) = %v, %v", a, b)
	}
	xs := append([]float64(nil), c.Xs...)
	sort.Float64s(xs)
	prevX, prevY := math.NaN(), math.NaN()
	nt := false
	bigLo, bigW := ref.Ln(ref.B(math.Abs(lo))), ref.Sub(ref.Ln(ref.B(math.Abs(hi))), ref.Ln(ref.B(math.Abs(lo))))
	for _, x := range xs {
		if x == 0 || (x < 0) != neg {
			return ev.Fail("harness error: probe of the wrong sign")
		}
		y := s.Map(x)
		// affine in log|x|, 0 at Min and 1 at Max
		want := ref.F64(ref.Quo(ref.Sub(ref.Ln(ref.B(math.Abs(x))), bigLo), bigW))
		tol := cT*ref.Eps*(math.Abs(lnAbs(x))+lmag+1)/lw + 1e-15
		if !(math.Abs(y-want) <= tol) {
			return ev.Fail("Map(%v) = %.17g, log-affine value %.17g (tol %.3g)", x, y, want, tol)
		}
		ev.MaxErr("log-map", math.Abs(y-want)/tol)
		if !math.IsNaN(prevX) {
			if dir*(y-prevY) < -tol {
				return ev.Fail("Map not monotone: Map(%v) = %.17g, Map(%v) = %.17g", prevX, prevY, x, y)
			}
			// strictness can only be observed above the resolution of the logarithm itself
			if sep := math.Abs(lnAbs(x) - lnAbs(prevX)); sep > 1e-9*lw && sep > 8*ref.Eps*(1+math.Abs(lnAbs(x))+lmag) && !(dir*(y-prevY) > 0) {
				return ev.Fail("Map not strictly monotone: Map(%v) = %.17g, Map(%v) = %.17g", prevX, prevY, x, y)
			}
		}
		prevX, prevY = x, y
		back := s.Unmap(y)
		relTol := cT * ref.Eps * (1 + math.Abs(lnAbs(x)) + lmag)
		if !(math.Abs(back-x) <= relTol*math.Abs(x)) {
			return ev.Fail("Unmap(Map(%v)) = %.17g (relative tol %.3g)", x, back, relTol)
		}
		ev.MaxErr("log-roundtrip", math.Abs(back-x)/(relTol*math.Abs(x)))
		yc := cl.Map(x)
		switch {
		case y < 0:
			if yc != 0 {
				return ev.Fail("clamped Map(%v) = %v, want 0", x, yc)
			}
		case y > 1:
			if yc != 1 {
				return ev.Fail("clamped Map(%v) = %v, want 1", x, yc)
			}
		default:
			if yc != y {
				return ev.Fail("clamped Map(%v) = %v differs from the unclamped %v", x, yc, y)
			}
		}
		if x != lo && x != hi {
			nt = true
		}
	}
	for _, y := range c.Ys {
		x := s.Unmap(y)
		// ln|Unmap(y)| by the definition; outside the normal range the result over- or
		// underflows legitimately and only its sign is checked
		le := lmin + y*(lmax-lmin)
		representable := le > -700 && le < 700
		if math.IsNaN(x) || (x != 0 && (x < 0) != neg) || (x == 0 && representable) {
			return ev.Fail("Unmap(%v) = %v leaves the sign of the domain", y, x)
		}
		if math.IsInf(x, 0) && representable {
			return ev.Fail("Unmap(%v) = %v, the geometric interpolation exp(%v) is finite", y, x, le)
		}
		if !representable || math.IsInf(x, 0) || x == 0 {
			continue
		}
		y2 := s.Map(x)
		tolY := cT*ref.Eps*(math.Abs(y)*lw+lmag+1)/lw*2 + 1e-15
		if !(math.Abs(y2-y) <= tolY) {
			return ev.Fail("Map(Unmap(%v)) = %.17g (tol %.3g)", y, y2, tolY)
		}
	}
	cls := "log-positive"
	if neg {
		cls = "log-negative"
	}
	if c.Decreasing {
		return ev.OK(nt, cls, "log-decreasing-literal")
	}
	return ev.OK(nt, cls)
})

// ---------------------------------------------------------------- NewLog

type NewLogCase struct {
	Min  float64 `json:"min"`
	Max  float64 `json:"max"`
	Base int     `json:"base"`
}

var checkNewLog = ev.Register("newlog", func(c *NewLogCase) ev.Outcome {
	s, err := scale.NewLog(c.Min, c.Max, c.Base)
	lo, hi := math.Min(c.Min, c.Max), math.Max(c.Min, c.Max)
	wantErr := c.Base < 2 || (lo <= 0 && hi >= 0)
	if (err != nil) != wantErr {
		return ev.Fail("NewLog(%v,%v,%d): error %v, want error: %v", c.Min, c.Max, c.Base, err, wantErr)
	}
	if err != nil {
		var re scale.RangeErr
		if !errors.As(err, &re) {
			return ev.Fail("NewLog error %T is not a RangeErr", err)
		}
		return ev.OK(true, "newlog-rejected")
	}
	if s.Min != lo || s.Max != hi || s.Base != c.Base || s.Clamp {
		return ev.Fail("NewLog(%v,%v,%d) = %+v", c.Min, c.Max, c.Base, s)
	}
	return ev.OK(true, "newlog-accepted")
})

// ---------------------------------------------------------------- QQ

type ScaleSpec struct {
	Log   bool    `json:"log"`
	Min   float64 `json:"min"`
	Max   float64 `json:"max"`
	Base  int     `json:"base,omitempty"`
	Clamp bool    `json:"clamp,omitempty"`
}

func (sp ScaleSpec) build() scale.Quantitative {
	if sp.Log {
		l, err := scale.NewLog(sp.Min, sp.Max, sp.Base)
		if err != nil {
			return nil
		}
		l.SetClamp(sp.Clamp)
		return &l
	}
	return &scale.Linear{Min: sp.Min, Max: sp.Max, Clamp: sp.Clamp}
}

type QQCase struct {
	Src     ScaleSpec `json:"src"`
	Dest    ScaleSpec `json:"dest"`
	SameObj bool      `json:"same_obj"` // Dest is the very same scale object as Src
	Us      []float64 `json:"us"`       // positions in source scale units (0 = Min, 1 = Max)
	Extra   []float64 `json:"extra"`    // raw x values (zero, wrong sign, far outside)
}

var checkQQ = ev.Register("qq", func(c *QQCase) ev.Outcome {
	src, dst := c.Src.build(), c.Dest.build()
	if src == nil || dst == nil {
		return ev.Fail("harness error: scale spec")
	}
	if c.SameObj {
		dst = src
	}
	q := scale.QQ{Src: src, Dest: dst}
	sameBits := func(a, b float64) bool {
		return math.Float64bits(a) == math.Float64bits(b) || (math.IsNaN(a) && math.IsNaN(b))
	}
	// the composition law holds for every input, also where Map is not invertible (clamped,
	// degenerate, zero or wrong-sign input of a Log scale)
	for _, x := range c.Extra {
		if got, want := q.Map(x), dst.Unmap(src.Map(x)); !sameBits(got, want) {
			return ev.Fail("QQ.Map(%v) = %v, Dest.Unmap(Src.Map(x)) = %v", x, got, want)
		}
		if got, want := q.Unmap(x), src.Unmap(dst.Map(x)); !sameBits(got, want) {
			return ev.Fail("QQ.Unmap(%v) = %v, Src.Unmap(Dest.Map(y)) = %v", x, got, want)
		}
	}
	nt := false
	for _, u := range c.Us {
		x := src.Unmap(u)
		if math.IsNaN(x) || math.IsInf(x, 0) || x == 0 {
			continue
		}
		got := q.Map(x)
		want := dst.Unmap(src.Map(x))
		if !sameBits(got, want) {
			return ev.Fail("QQ.Map(%v) = %v, Dest.Unmap(Src.Map(x)) = %v", x, got, want)
		}
		if math.IsNaN(got) || math.IsInf(got, 0) {
			continue
		}
		if c.Src.Clamp || c.Dest.Clamp || c.Src.Min == c.Src.Max || c.Dest.Min == c.Dest.Max {
			continue // not invertible: only the composition law applies
		}
		if un, w2 := q.Unmap(got), src.Unmap(dst.Map(got)); math.Float64bits(un) != math.Float64bits(w2) {
			return ev.Fail("QQ.Unmap(%v) = %v, Src.Unmap(Dest.Map(y)) = %v", got, un, w2)
		}
		back := q.Unmap(got)
		// tolerance: both scales' round-trip errors
		mag := func(sp ScaleSpec, v float64) float64 {
			if sp.Log {
				return (1 + math.Abs(math.Log(math.Abs(v))) + math.Abs(math.Log(math.Abs(sp.Min))) + math.Abs(math.Log(math.Abs(sp.Max)))) * math.Abs(v)
			}
			return math.Abs(v) + math.Abs(sp.Min) + math.Abs(sp.Max)
		}
		// error in the unit interval from the destination round trip, carried back through the source's slope
		unitErr := 4 * cT * ref.Eps * (mag(c.Dest, got)/unitSlope(c.Dest, got) + 1 + math.Abs(u))
		tol := 4*cT*ref.Eps*mag(c.Src, x) + unitErr*unitSlope(c.Src, x)
		if !(math.Abs(back-x) <= tol) {
			return ev.Fail("QQ.Unmap(QQ.Map(%v)) = %.17g (tol %.3g)", x, back, tol)
		}
		ev.MaxErr("qq-roundtrip", math.Abs(back-x)/tol)
		nt = true
	}
	kind := func(sp ScaleSpec) string {
		if sp.Log {
			return "log"
		}
		return "linear"
	}
	return ev.OK(nt, "qq-"+kind(c.Src)+"-to-"+kind(c.Dest))
})

// unitSlope is |d value / d unit| of a scale at value v.
func unitSlope(sp ScaleSpec, v float64) float64 {
	if sp.Log {
		return math.Abs(v) * math.Abs(math.Log(math.Abs(sp.Max))-math.Log(math.Abs(sp.Min)))
	}
	return math.Abs(sp.Max - sp.Min)
}

// ---------------------------------------------------------------- generators

const rule = "Linear: |Min|,|Max| log-uniform in [1e-12,1e12] of either sign and order, near-degenerate (Max=Min(1+-1e-9)) and " +
	"degenerate domains, x within 100 widths, y in [-5,5]: Map(Min)=0, Map(Max)=1 exactly, Map vs (x-Min)/(Max-Min) in 400-bit " +
	"arithmetic, weakly monotone for all pairs and strictly for pairs more than 1e-9 widths apart, Unmap o Map and Map o Unmap " +
	"round trips, clamp, degenerate -> 0.5. Log (via NewLog, positive and negative domains, bases 2..16): the same in log|x| " +
	"with x within 10 log-widths, NaN for 0 and the wrong sign. NewLog accepts exactly finite ranges excluding 0 with base>=2 " +
	"(RangeErr otherwise). QQ over all four pairings: Map = Dest.Unmap o Src.Map bit-for-bit, Unmap o Map round trip. " +
	"Tolerances 16*eps*(|x|+|Min|+|Max|) (relative with log terms for Log). Non-trivial: non-degenerate domain and x not an end. Later additions: decreasing Log domains as keyed literals (NewLog orders its arguments), re-used scale values, clamped degenerate Log, Log domains over the whole normal range (1e-300..1e300, MaxFloat64, the smallest normal: Max/Min not representable)."

func drawMag(t *rapid.T, label string) float64 {
	switch rapid.IntRange(0, 2).Draw(t, label+".kind") {
	case 0:
		return float64(rapid.IntRange(1, 100).Draw(t, label+".int"))
	default:
		return gen.LogUniform(t, 1e-12, 1e12, label)
	}
}

// drawLogMag: end points of Log domains also cover the whole normal range - the ratio Max/Min and
// the product Min*Max of such a domain are not representable, only the logarithms are (round 11,
// R11-C16). MaxFloat64 itself is left out: Unmap(Map(MaxFloat64)) may round to +Inf legitimately;
// so are subnormal end points (math.Log itself is off by 7e-4 relative at 1e-308 on this toolchain).
func drawLogMag(t *rapid.T, label string) float64 {
	switch rapid.IntRange(0, 4).Draw(t, label+".kind") {
	case 0:
		return float64(rapid.IntRange(1, 100).Draw(t, label+".int"))
	case 3:
		return gen.LogUniform(t, 1e-300, 1e300, label+".wide")
	case 4:
		return rapid.SampledFrom([]float64{1e-160, 1e160, smallestNormal, 1e-307, 1e308, 1e-155, 1e155}).Draw(t, label+".extreme")
	default:
		return gen.LogUniform(t, 1e-12, 1e12, label)
	}
}

const smallestNormal = 2.2250738585072014e-308

func TestLinear(t *testing.T) {
	ev.Rule(rule)
	ev.Rapid(t, "c16-linear", 6000, 400000, func(rt *rapid.T) {
		c := &LinCase{}
		switch rapid.IntRange(0, 5).Draw(rt, "domain") {
		case 0:
			c.Min = gen.Sign(rt, "s") * drawMag(rt, "min")
			c.Max = c.Min * (1 + gen.Sign(rt, "d")*1e-9)
		case 1:
			c.Min = gen.Sign(rt, "s") * drawMag(rt, "min")
			c.Max = c.Min
		case 2:
			c.Min, c.Max = 0, gen.Sign(rt, "s")*drawMag(rt, "max")
			if rapid.Bool().Draw(rt, "swap") {
				c.Min, c.Max = c.Max, c.Min
			}
		default:
			c.Min = gen.Sign(rt, "s1") * drawMag(rt, "min")
			c.Max = gen.Sign(rt, "s2") * drawMag(rt, "max")
		}
		w := c.Max - c.Min
		n := rapid.IntRange(2, 8).Draw(rt, "nx")
		for i := 0; i < n; i++ {
			switch rapid.IntRange(0, 4).Draw(rt, "xkind") {
			case 0:
				c.Xs = append(c.Xs, rapid.SampledFrom([]float64{c.Min, c.Max}).Draw(rt, "end"))
			case 1:
				c.Xs = append(c.Xs, c.Min+w*rapid.Float64Range(-100, 100).Draw(rt, "far"))
			case 2:
				c.Xs = append(c.Xs, c.Min+w*(0.5+1e-9*float64(rapid.IntRange(-3, 3).Draw(rt, "close"))))
			default:
				c.Xs = append(c.Xs, c.Min+w*rapid.Float64Range(-0.5, 1.5).Draw(rt, "u"))
			}
		}
		for i := 0; i < 3; i++ {
			c.Ys = append(c.Ys, rapid.Float64Range(-5, 5).Draw(rt, "y"))
		}
		checkLinear.Run(rt, c)
	})
}

func drawLogDomain(t *rapid.T) (min, max float64, base int) {
	sign := gen.Sign(t, "sign")
	a := drawLogMag(t, "a")
	var b float64
	switch rapid.IntRange(0, 4).Draw(t, "dom") {
	case 0:
		b = a * (1 + 1e-9)
		if math.IsInf(b, 0) {
			b = a
		}
	case 1:
		b = a
	default:
		b = drawLogMag(t, "b")
	}
	min, max = sign*a, sign*b
	base = rapid.SampledFrom([]int{10, 2, 3, 16, 5}).Draw(t, "base")
	return
}

func TestLog(t *testing.T) {
	ev.Rule(rule)
	ev.Rapid(t, "c16-log", 6000, 400000, func(rt *rapid.T) {
		c := &LogCase{}
		c.Min, c.Max, c.Base = drawLogDomain(rt)
		lo, hi := math.Min(math.Abs(c.Min), math.Abs(c.Max)), math.Max(math.Abs(c.Min), math.Abs(c.Max))
		lw := math.Log(hi) - math.Log(lo)
		sign := math.Copysign(1, c.Min)
		n := rapid.IntRange(2, 8).Draw(rt, "nx")
		for i := 0; i < n; i++ {
			var u float64
			switch rapid.IntRange(0, 4).Draw(rt, "xkind") {
			case 0:
				u = float64(rapid.IntRange(0, 1).Draw(rt, "end"))
			case 1:
				u = rapid.Float64Range(-10, 10).Draw(rt, "far")
			case 2:
				u = 0.5 + 1e-9*float64(rapid.IntRange(-3, 3).Draw(rt, "close"))
			default:
				u = rapid.Float64Range(-0.5, 1.5).Draw(rt, "u")
			}
			x := math.Exp(math.Log(lo) + u*lw)
			if u == 0 {
				x = lo
			}
			if u == 1 {
				x = hi
			}
			if x < smallestNormal || x > 1e308 {
				// subnormal probes have no relative precision to round-trip with
				continue
			}
			c.Xs = append(c.Xs, sign*x)
		}
		for i := 0; i < 3; i++ {
			c.Ys = append(c.Ys, rapid.Float64Range(-5, 5).Draw(rt, "y"))
		}
		switch rapid.IntRange(0, 7).Draw(rt, "reused") {
		case 0: // the negated mirror image of the domain
			c.EarlierMin, c.EarlierMax = -c.Max, -c.Min
		case 1: // the same domain the other way round
			c.EarlierMin, c.EarlierMax = c.Max, c.Min
		case 2: // another domain of the same sign
			if e0, e1 := c.Min*3, c.Max*50; !math.IsInf(e0, 0) && !math.IsInf(e1, 0) {
				c.EarlierMin, c.EarlierMax = e0, e1
			}
		}
		c.Decreasing = rapid.IntRange(0, 2).Draw(rt, "decreasingLiteral") == 0
		checkLog.Run(rt, c)
	})
}

func TestNewLog(t *testing.T) {
	ev.Rule(rule)
	ev.Rapid(t, "c16-newlog", 3000, 100000, func(rt *rapid.T) {
		val := func(label string) float64 {
			switch rapid.IntRange(0, 3).Draw(rt, label+".kind") {
			case 0:
				return 0
			case 1:
				return float64(rapid.IntRange(-3, 3).Draw(rt, label+".int"))
			default:
				return gen.Sign(rt, label+".s") * gen.LogUniform(rt, 1e-12, 1e12, label)
			}
		}
		c := &NewLogCase{Min: val("min"), Max: val("max"), Base: rapid.SampledFrom([]int{10, 2, 1, 0, -1, 3, 16, 1000}).Draw(rt, "base")}
		if rapid.IntRange(0, 9).Draw(rt, "negzero") == 0 {
			c.Min = math.Copysign(0, -1)
		}
		checkNewLog.Run(rt, c)
	})
}

func TestQQ(t *testing.T) {
	ev.Rule(rule)
	ev.Rapid(t, "c16-qq", 3000, 200000, func(rt *rapid.T) {
		spec := func(label string) ScaleSpec {
			if rapid.Bool().Draw(rt, label+".log") {
				sign := gen.Sign(rt, label+".sign")
				a := gen.LogUniform(rt, 1e-6, 1e6, label+".a")
				b := a * gen.LogUniform(rt, 1.5, 1e6, label+".ratio")
				return ScaleSpec{Log: true, Min: sign * a, Max: sign * b, Base: rapid.SampledFrom([]int{10, 2}).Draw(rt, label+".base")}
			}
			a := rapid.Float64Range(-1e6, 1e6).Draw(rt, label+".min")
			w := gen.Sign(rt, label+".dir") * gen.LogUniform(rt, 1e-3, 1e6, label+".w")
			return ScaleSpec{Min: a, Max: a + w}
		}
		c := &QQCase{Src: spec("src"), Dest: spec("dest")}
		switch rapid.IntRange(0, 5).Draw(rt, "pairing") {
		case 0: // an identically configured destination
			c.Dest = c.Src
		case 1: // the very same object on both sides
			c.Dest = c.Src
			c.SameObj = true
		}
		if rapid.IntRange(0, 2).Draw(rt, "clamped") == 0 {
			c.Src.Clamp = rapid.Bool().Draw(rt, "clampSrc")
			c.Dest.Clamp = rapid.Bool().Draw(rt, "clampDest")
			if c.SameObj {
				c.Dest.Clamp = c.Src.Clamp
			}
		}
		if rapid.IntRange(0, 9).Draw(rt, "degenerate") == 0 {
			c.Src.Max = c.Src.Min
			if c.SameObj || rapid.Bool().Draw(rt, "bothDegenerate") {
				c.Dest = c.Src
			}
		}
		for i := 0; i < 5; i++ {
			c.Us = append(c.Us, rapid.Float64Range(-0.5, 1.5).Draw(rt, "u"))
		}
		for i := 0; i < 4; i++ {
			c.Extra = append(c.Extra, rapid.SampledFrom([]float64{0, 1, -1, 10, -10, 1e9, -1e9, c.Src.Min, c.Src.Max, -c.Src.Min, c.Src.Min * 3, c.Src.Max * 3}).Draw(rt, "extra"))
		}
		checkQQ.Run(rt, c)
	})
}
